(* C11 for a network of several hosts with pair creation.

   Model: one Model-V network shared by N NetQASM hosts, host i drives node i (nst).  Host-level actions (nact):
     AInstr i q                       one subroutine instruction / init / stop of host i        (Exec.exec, unchanged)
     ACreate i app a known r adj sk coins
                                      create-and-keep of ONE pair by application `app` of host i towards node r
                                      (_do_create_epr: qubit_id = _get_unused_physical_qubit; cmd_epr = EprGate.cmd_epr_keep;
                                       on success the half is appended to node r's list for socket sk
                                       (netqasm_add_epr_list) and the kept half is mapped to the virtual address a
                                       (_handle_epr_ok_k_response -> _allocate_physical_qubit: bind_host);
                                       on failure after a temporary exists the temporaries are measured out again
                                       (coins: the coins of those measurements) and the physical id is released)
     ARecv i app a sk                 host i polls its node's list for socket sk (cmd_epr_recv: netqasm_get_epr_recv, popleft);
                                      a delivered half is entered into qubitList under the smallest unused physical id
                                      and mapped to the virtual address a; nothing delivered: nothing changes (timeout);
                                      the head of the deque is the outcome record of a measure-directly pair: it is popped,
                                      no qubit is mapped (the physical id _do_recv_epr reserved stays reserved)
     ACreateM i known r adj lsock rsock seq bl br c1 c2 coins
                                      ONE pair of a measure-directly request of host i towards node r
                                      (EprGate.cmd_epr_measure: the two temporaries, H, CNOT, each rotated into its sampled
                                       basis bl / br and measured destructively with the coins c1 / c2, removed; the peer's
                                       outcome record -- outcome, basis, sequence number seq, directionality 1, node i, socket
                                       rsock -- is appended to node r's deque for socket rsock: netqasm_send_epr_half(None, ..)
                                       -> netqasm_add_epr_list, the SAME deque delivered halves are queued in; no qubit
                                       changes hands.  The sequence number is an input: the counter new_ent_id keeps per
                                       (socket, remote node, remote socket) is the keyed model of Qasm/Epr.v, composed with
                                       this one in Qasm/EprCases.v)
   n_pend = the per-node per-socket deques of delivered, unclaimed halves (DK) and measure-directly outcome records (DM), in
   arrival order.  As in the code an entry
   carries the virtual NUMBER the receiving node gave the delivered qubit (the value remote_send_qubit returned), and a
   poll looks the qubit up again by that number (remote_get_virtual_ref = PerNodeNum.hid_of_num: first listed virtual qubit
   with the number).  The fourth component (the handle of the delivered qubit) is GHOST: never read by nstep_r; the
   invariant proves that the lookup returns exactly it (pending_lookup_faithful).

   A pair creation refused AFTER a temporary exists (second cmd_new refused or the receiver refuses the half) used to be
   excluded: the former defect C11:epr-temporaries.  Since its repair (fixes/D16ii-epr-temporaries.diff) cmd_epr removes its
   temporaries before re-raising, and such creations are ordinary actions here: epr_keep_failure_effect /
   failed_creation_restores show that they leave every host and every node's list of held qubits exactly as they were.

   Excluded by `clean` (and said so in the theorems):
   (1) binding a created / received half to a virtual address that is not a free address of the application's unit module
   (address in use: the code keeps the response pending and retries; no such address: it raises; the model describes neither);
   (2) as in Teardown.v: initialising an application id that still has a unit module. *)
From Coq Require Import List Bool Arith Lia.
From SQ Require Import Base.ListUtil Stab.Tableau Net.Model Net.Refusal Net.Handles Net.Inv Net.InvNew Net.InvStep
  Net.Bookkeeping Net.Population Net.NonEmpty Net.PerNode Qasm.Exec Qasm.ExecProps Qasm.Teardown Qasm.TeardownFull
  Qasm.Epr Qasm.EprGate Qasm.PerNodeNum Qasm.TeardownX Qasm.EprFailNode Qasm.EprMeasureNode.
Import ListNotations.

Local Arguments step : simpl never.

(* ---- the model ------------------------------------------------------------------------------------------------------------------- *)
Definition pentry := (nat * nat * nat * nat)%type.          (* node, socket, virtual number, ghost handle *)
Definition p_node (e : pentry) : nat := fst (fst (fst e)).
Definition p_sock (e : pentry) : nat := snd (fst (fst e)).
Definition p_num (e : pentry) : nat := snd (fst e).
Definition p_hd (e : pentry) : nat := snd e.
(* an entry of a receive deque: a delivered half (create-and-keep), or the outcome record of a measure-directly pair -- the code
   appends both to the same deque qubit_recv_epr[socket] (netqasm_add_epr_list; virt_num = None for a record) *)
Inductive dentry := DK (e : pentry) | DM (node sock : nat) (rec : mrec).
Definition d_node (d : dentry) : nat := match d with DK e => p_node e | DM n _ _ => n end.
Definition d_sock (d : dentry) : nat := match d with DK e => p_sock e | DM _ k _ => k end.
(* the delivered halves among the entries, in order *)
Fixpoint halves (pd : list dentry) : list pentry :=
  match pd with [] => [] | DK e :: t => e :: halves t | DM _ _ _ :: t => halves t end.
Record nst := mkN { n_net : net; n_hosts : list host; n_pend : list dentry }.
Definition host_at (s : nst) (i : nat) : host := nth i (n_hosts s) empty_host.
Definition ninit (caps : list (nat * nat)) : nst := mkN (init_net caps) (map (fun _ => empty_host) caps) [].

Inductive nact :=
| AInstr (i : nat) (q : qinstr)
| ACreate (i app a : nat) (known : list nat) (r : nat) (adj : bool) (rsock : nat) (coins : list bool)
| ARecv (i app a sock : nat)
| ACreateM (i : nat) (known : list nat) (r : nat) (adj : bool) (lsock rsock seq : nat) (bl br : mbasis) (c1 c2 : bool)
           (coins : list bool).

Definition addr_free (h : host) (app a : nat) : option (list (option nat)) :=
  match alookup app (h_units h) with
  | Some um => match nth_error um a with Some None => Some um | _ => None end
  | None => None
  end.
(* _handle_epr_ok_k_response: used.add(id); unit_module[a] = id *)
Definition map_addr (h : host) (app a qid : nat) : host :=
  match addr_free h app a with
  | Some um => with_units (with_used h (insert_sorted qid (h_used h))) (aset app (upd um a (Some qid)) (h_units h))
  | None => h          (* address in use: the response stays pending and is retried; no such address / unit module:
                          _allocate_physical_qubit raises -- neither is modelled, both are excluded by `clean` *)
  end.
(* popleft of the deque of (node i, socket sock) *)
Fixpoint take_pend (i sock : nat) (pd : list dentry) : option (dentry * list dentry) :=
  match pd with
  | [] => None
  | e :: t => if Nat.eqb (d_node e) i && Nat.eqb (d_sock e) sock then Some (e, t)
              else match take_pend i sock t with Some (x, t') => Some (x, e :: t') | None => None end
  end.
(* the number remote_send_qubit returned: the result of the last native call (the send) of a successful creation *)
Definition sent_num (tr : ntrace) : nat := match snd (last tr (ONew 0, OkNone)) with Ok v => v | _ => 0 end.

(* a physical id that was reserved (_get_unused_physical_qubit) and is never released: the creator's and the receiver's id of a
   measure-directly pair (no qubit is ever bound to it; _do_create_epr / _do_recv_epr reserve it all the same) *)
Definition keep_used (h : host) (qid : nat) : host := with_used h (insert_sorted qid (h_used h)).

(* one measure-directly pair: cmd_epr_measure; on success the two records are built (md_records), the peer's is queued.
   Returns also the native calls and the records (creator's, peer's); nstep_r keeps state and result *)
Definition create_m (s : nst) (i : nat) (known : list nat) (r : nat) (adj : bool) (lsock rsock seq : nat) (bl br : mbasis)
  (c1 c2 : bool) (coins : list bool) : nst * qres * ntrace * option (mrec * mrec) :=
  let qid := fresh_id (h_used (host_at s i)) in
  let '(s1, res, tr, o) := cmd_epr_measure i (mkQ (n_net s) (host_at s i)) known r adj qid bl br c1 c2 coins in
  match o with
  | Some oo =>
      let recs := md_records i r lsock rsock seq bl br oo in
      (mkN (q_net s1) (upd (n_hosts s) i (keep_used (q_host s1) qid)) (n_pend s ++ [DM r rsock (snd recs)]), res, tr, Some recs)
  | None => (mkN (q_net s1) (upd (n_hosts s) i (q_host s1)) (n_pend s), res, tr, None)
  end.

Definition nstep_r (s : nst) (x : nact) : nst * qres :=
  match x with
  | AInstr i q =>
      if Nat.ltb i (length (n_hosts s)) then
        let '(s', r, _) := exec i (mkQ (n_net s) (host_at s i)) q in
        (mkN (q_net s') (upd (n_hosts s) i (q_host s')) (n_pend s), r)
      else (s, RErr)
  | ACreate i app a known r adj rsock coins =>
      if Nat.ltb i (length (n_hosts s)) then
        let qid := fresh_id (h_used (host_at s i)) in
        let '(s1, res, tr) := cmd_epr_keep i (mkQ (n_net s) (host_at s i)) known r adj qid coins in
        match res with
        | RDone None => (mkN (q_net s1) (upd (n_hosts s) i (map_addr (q_host s1) app a qid))
                          (n_pend s ++ [DK (r, rsock, sent_num tr, pred (next_hid (q_net s1)))]), res)
        | _ => (mkN (q_net s1) (upd (n_hosts s) i (q_host s1)) (n_pend s), res)
        end
      else (s, RErr)
  | ARecv i app a sock =>
      if Nat.ltb i (length (n_hosts s)) then
        match take_pend i sock (n_pend s) with
        | None => (s, RErr)                                                        (* TimeoutError *)
        | Some (DM _ _ _, pd') =>                                (* a measure-directly record: popped, nothing is mapped *)
            let h := host_at s i in
            (mkN (n_net s) (upd (n_hosts s) i (keep_used h (fresh_id (h_used h)))) pd', RDone None)
        | Some (DK e, pd') =>
            let num := p_num e in
            match hid_of_num (nth_node (n_net s) i) num with
            | None => (mkN (n_net s) (n_hosts s) pd', RErr)                          (* remote_get_virtual_ref found nothing *)
            | Some hd =>
                let h := host_at s i in
                let qid := fresh_id (h_used h) in
                match plookup (PP qid) (h_qlist h) with
                | Some _ => (mkN (n_net s) (n_hosts s) pd', RErr)                    (* "Qubit with ID ... already in use" *)
                | None => (mkN (n_net s) (upd (n_hosts s) i (map_addr (with_qlist h (pset (PP qid) hd (h_qlist h))) app a qid)) pd',
                           RDone None)
                end
            end
        end
      else (s, RErr)
  | ACreateM i known r adj lsock rsock seq bl br c1 c2 coins =>
      if Nat.ltb i (length (n_hosts s)) then
        let '(s', res, _, _) := create_m s i known r adj lsock rsock seq bl br c1 c2 coins in (s', res)
      else (s, RErr)
  end.
Definition nstep (s : nst) (x : nact) : nst := fst (nstep_r s x).

(* the entanglement-information records of measure-directly pairs an action writes into the ReturnArray of its host (host, record):
   the creator's record when the request succeeds (_handle_epr_response at the end of cmd_epr), the peer's when the receiver
   polls it (cmd_epr_recv).  Records of create-and-keep pairs are not modelled *)
Definition act_records (s : nst) (x : nact) : list (nat * mrec) :=
  match x with
  | ACreateM i known r adj lsock rsock seq bl br c1 c2 coins =>
      if Nat.ltb i (length (n_hosts s)) then
        match snd (create_m s i known r adj lsock rsock seq bl br c1 c2 coins) with Some (rc, _) => [(i, rc)] | None => [] end
      else []
  | ARecv i _ _ sock =>
      if Nat.ltb i (length (n_hosts s)) then
        match take_pend i sock (n_pend s) with Some (DM _ _ rec, _) => [(i, rec)] | _ => [] end
      else []
  | _ => []
  end.
Definition nrun (s : nst) (xs : list nact) : nst := fold_left nstep xs s.

(* ---- what is excluded ------------------------------------------------------------------------------------------------------------ *)
(* a creation that fails after a temporary qubit exists: no longer excluded (see failed_creation_is_clean) *)
Definition fails_after_temporary (i : nat) (s : qst) known r adj qid coins : Prop :=
  snd (fst (cmd_epr_keep i s known r adj qid coins)) <> RDone None /\
  exists v, In (ONew i, Ok v) (snd (cmd_epr_keep i s known r adj qid coins)).

Definition clean (s : nst) (x : nact) : Prop :=
  match x with
  | AInstr i q => fresh_init (mkQ (n_net s) (host_at s i)) q
  | ACreate i app a known r adj rsock coins =>
      let qs := mkQ (n_net s) (host_at s i) in
      let qid := fresh_id (h_used (host_at s i)) in
      snd (fst (cmd_epr_keep i qs known r adj qid coins)) = RDone None -> addr_free (host_at s i) app a <> None
  | ARecv i app a sock =>
      match take_pend i sock (n_pend s) with Some (DK _, _) => addr_free (host_at s i) app a <> None | _ => True end
  | ACreateM _ _ _ _ _ _ _ _ _ _ _ _ => True               (* no qubit is bound to an address *)
  end.
Fixpoint cleans (s : nst) (xs : list nact) : Prop :=
  match xs with [] => True | x :: t => clean s x /\ cleans (nstep s x) t end.

(* ---- small facts ------------------------------------------------------------------------------------------------------------------ *)
(* the handles of the halves delivered to node i and not yet claimed (outcome records carry no qubit) *)
Definition pend_at (pd : list dentry) (i : nat) : list nat :=
  map p_hd (filter (fun e => Nat.eqb (p_node e) i) (halves pd)).

Lemma halves_app pd1 pd2 : halves (pd1 ++ pd2) = halves pd1 ++ halves pd2.
Proof. induction pd1 as [|[e|n k m] t IH]; simpl; congruence. Qed.
Lemma pend_at_app pd1 pd2 i : pend_at (pd1 ++ pd2) i = pend_at pd1 i ++ pend_at pd2 i.
Proof. unfold pend_at. rewrite halves_app, filter_app, map_app. reflexivity. Qed.
Lemma pend_at_record n k m i : pend_at [DM n k m] i = [].
Proof. reflexivity. Qed.
Lemma pend_at_cons_record n k m pd i : pend_at (DM n k m :: pd) i = pend_at pd i.
Proof. reflexivity. Qed.

Lemma take_pend_spec i sock pd e pd' : take_pend i sock pd = Some (e, pd') ->
  exists l1 l2, pd = l1 ++ e :: l2 /\ pd' = l1 ++ l2 /\ d_node e = i /\ d_sock e = sock.
Proof.
  revert pd'. induction pd as [|x t IH]; intros pd'; simpl; [discriminate|].
  destruct (Nat.eqb (d_node x) i && Nat.eqb (d_sock x) sock) eqn:B.
  - apply andb_prop in B as [B1 B2]. apply Nat.eqb_eq in B1, B2.
    intro H; inversion H; subst x pd'. exists [], t. repeat split; auto.
  - destruct (take_pend i sock t) as [[x0 t']|]; [|discriminate]. intro H; inversion H; subst x0 pd'.
    destruct (IH t' eq_refl) as (l1 & l2 & E3 & E4 & E5 & E6). exists (x :: l1), l2. rewrite E3, E4. repeat split; auto.
Qed.

Lemma premove_app k l1 l2 : premove k (l1 ++ l2) = premove k l1 ++ premove k l2.
Proof. induction l1 as [|[k' v] t IH]; simpl; auto. destruct (pid_eqb k' k); simpl; congruence. Qed.
Lemma premove_pset k v l : premove k (pset k v l) = premove k l.
Proof.
  unfold pset. rewrite premove_app. simpl. destruct (pid_eqb_spec k k); [|congruence].
  rewrite app_nil_r. apply premove_absent. apply plookup_premove_eq.
Qed.

Lemma leakfree_net n n' h : leakfree (mkQ n h) -> leakfree (mkQ n' h).
Proof. intro H. exact H. Qed.

Lemma filter_drop_last l a1 a2 : ~ In a2 l -> a1 <> a2 ->
  filter (fun x => negb (Nat.eqb x a2)) (l ++ [a1; a2]) = l ++ [a1].
Proof.
  intros H N. rewrite filter_app. simpl. rewrite Nat.eqb_refl. simpl.
  destruct (Nat.eqb_spec a1 a2); [contradiction|]. simpl. f_equal.
  induction l as [|x t IH]; simpl; auto. destruct (Nat.eqb_spec x a2); simpl.
  - exfalso. apply H. simpl; auto.
  - f_equal. apply IH. intro; apply H; simpl; auto.
Qed.

Lemma filter_drop_last_vn (l : list (nat * nat)) n1 a1 n2 a2 : ~ In a2 (map snd l) -> a1 <> a2 ->
  filter (fun p => negb (Nat.eqb (snd p) a2)) (l ++ [(n1, a1); (n2, a2)]) = l ++ [(n1, a1)].
Proof.
  intros H N. rewrite filter_app. cbn [filter snd]. rewrite Nat.eqb_refl. cbn [negb].
  destruct (Nat.eqb_spec a1 a2); [contradiction|]. cbn [negb]. f_equal.
  induction l as [|x t IH]; simpl; auto. destruct (Nat.eqb_spec (snd x) a2); simpl.
  - exfalso. apply H. simpl; auto.
  - f_equal. apply IH. intro; apply H; simpl; auto.
Qed.

Lemma cmd_new_ok i s p s1 t1 : cmd_new i s p = (s1, true, t1) ->
  exists v, step (q_net s) (ONew i) = (q_net s1, Ok v) /\
            q_host s1 = with_qlist (q_host s) (pset p (next_hid (q_net s)) (h_qlist (q_host s))) /\ t1 = [(ONew i, Ok v)].
Proof.
  unfold cmd_new. destruct (step (q_net s) (ONew i)) as [n' o]. destruct o; intro H; inversion H; subst. exists v. auto.
Qed.
Lemma cmd_new_fail i s p s1 t1 : cmd_new i s p = (s1, false, t1) -> s1 = s /\ forall v, ~ In (ONew i, Ok v) t1.
Proof.
  unfold cmd_new. destruct (step (q_net s) (ONew i)) as [n' o] eqn:E.
  assert (NOK : (forall v, o <> Ok v) -> n' = q_net s).
  { intro X. pose proof (step_not_ok_same (q_net s) (ONew i)) as Y. rewrite E in Y. apply Y; auto. }
  destruct o; intro H; inversion H; subst; (split; [rewrite NOK by (intros; discriminate); destruct s; reflexivity|]);
    intros v [X|[]]; inversion X.
Qed.
Lemma native_eq s o s1 r t : native s o = (s1, r, t) -> step (q_net s) o = (q_net s1, r) /\ q_host s1 = q_host s /\ t = [(o, r)].
Proof. unfold native. destruct (step (q_net s) o) as [n' r']. intro H. inversion H; subst. auto. Qed.

Lemma clear_pid_net_run s p c : q_net (fst (fst (clear_pid s p c))) = run (q_net s) (tops (snd (clear_pid s p c))).
Proof.
  unfold clear_pid. destruct (virt_of (q_host s) p) as [hd|]; [|reflexivity].
  pose proof (native_net_run s (OMeas hd false c)) as N. destruct (native s (OMeas hd false c)) as [[s1 r] tr]. simpl in N.
  destruct r; exact N.
Qed.
Lemma epr_cleanup_net_run ps : forall s coins,
  q_net (fst (epr_cleanup s ps coins)) = run (q_net s) (tops (snd (epr_cleanup s ps coins))).
Proof.
  induction ps as [|p t IH]; intros s coins; cbn [epr_cleanup]; [reflexivity|].
  destruct (virt_of (q_host s) p); [|apply IH].
  pose proof (clear_pid_net_run s p (hd false coins)) as N.
  destruct (clear_pid s p (hd false coins)) as [[s1 ok] tr]. cbn [fst snd] in N. destruct ok; [|exact N].
  pose proof (IH s1 (tl coins)) as N2. destruct (epr_cleanup s1 t (tl coins)) as [s2 tr2]. cbn [fst snd] in *.
  unfold tops in *. rewrite map_app, run_app, <- N. exact N2.
Qed.
Lemma epr_fail_net_run s0 s qid coins tr : q_net s = run (q_net s0) (tops tr) ->
  q_net (fst (fst (epr_fail s qid coins tr))) = run (q_net s0) (tops (snd (epr_fail s qid coins tr))).
Proof.
  intro N. unfold epr_fail. pose proof (epr_cleanup_net_run [PP qid; PM qid] s coins) as C.
  destruct (epr_cleanup s [PP qid; PM qid] coins) as [sc tc]. cbn [fst snd] in *.
  unfold tops in *. rewrite map_app, run_app, <- N. exact C.
Qed.

Lemma cmd_epr_keep_net_run i s known r adj qid coins :
  q_net (fst (fst (cmd_epr_keep i s known r adj qid coins))) = run (q_net s) (tops (snd (cmd_epr_keep i s known r adj qid coins))).
Proof.
  unfold cmd_epr_keep. destruct (negb (epr_gate known i r adj)); [reflexivity|].
  pose proof (cmd_new_net_run i s (PP qid)) as N1.
  destruct (cmd_new i s (PP qid)) as [[s1 ok1] t1]. simpl in N1. destruct (negb ok1); [apply epr_fail_net_run; exact N1|].
  pose proof (cmd_new_net_run i s1 (PM qid)) as N2.
  destruct (cmd_new i s1 (PM qid)) as [[s2 ok2] t2]. simpl in N2.
  assert (N12 : q_net s2 = run (q_net s) (tops (t1 ++ t2))) by (unfold tops in *; rewrite map_app, run_app, <- N1; exact N2).
  destruct (negb ok2); [apply epr_fail_net_run; exact N12|].
  destruct (virt_of (q_host s2) (PP qid)) as [h1|]; [|apply epr_fail_net_run; exact N12].
  destruct (virt_of (q_host s2) (PM qid)) as [h2|]; [|apply epr_fail_net_run; exact N12].
  pose proof (native_net_run s2 (OGate1 h1 NH)) as N3. destruct (native s2 (OGate1 h1 NH)) as [[s3 r3] t3]. simpl in N3.
  pose proof (native_net_run s3 (OGate2 h1 h2 NCnot)) as N4. destruct (native s3 (OGate2 h1 h2 NCnot)) as [[s4 r4] t4]. simpl in N4.
  pose proof (native_net_run s4 (OSend h2 r)) as N5. destruct (native s4 (OSend h2 r)) as [[s5 r5] t5]. simpl in N5.
  assert (N15 : q_net s5 = run (q_net s) (tops (t1 ++ t2 ++ t3 ++ t4 ++ t5))).
  { unfold tops in *. rewrite !map_app, !run_app. rewrite <- N1, <- N2, <- N3, <- N4. exact N5. }
  destruct r5; try (apply epr_fail_net_run; exact N15). exact N15.
Qed.

Lemma measure_epr_qubit_net_run s p b c :
  q_net (fst (fst (measure_epr_qubit s p b c))) = run (q_net s) (tops (snd (measure_epr_qubit s p b c))).
Proof.
  unfold measure_epr_qubit. destruct (virt_of (q_host s) p) as [hd|]; [|reflexivity].
  assert (B : forall X : qst * bool * ntrace, q_net (fst (fst X)) = run (q_net s) (tops (snd X)) ->
              q_net (fst (fst (let '(s1, bad, t1) := X in
                 if bad then (s1, @None nat, t1)
                 else let '(s2, r, t2) := native s1 (OMeas hd false c) in
                      match r with
                      | Ok v => (mkQ (q_net s2) (with_qlist (q_host s2) (premove p (h_qlist (q_host s2)))), Some v, t1 ++ t2)
                      | _ => (s2, None, t1 ++ t2)
                      end))) =
              run (q_net s) (tops (snd (let '(s1, bad, t1) := X in
                 if bad then (s1, @None nat, t1)
                 else let '(s2, r, t2) := native s1 (OMeas hd false c) in
                      match r with
                      | Ok v => (mkQ (q_net s2) (with_qlist (q_host s2) (premove p (h_qlist (q_host s2)))), Some v, t1 ++ t2)
                      | _ => (s2, None, t1 ++ t2)
                      end)))).
  { intros [[s1 bad] t1] N1. cbn [fst snd] in N1. destruct bad; [exact N1|].
    pose proof (native_net_run s1 (OMeas hd false c)) as N2. destruct (native s1 (OMeas hd false c)) as [[s2 r] t2]. cbn [fst snd] in N2.
    assert (N12 : q_net s2 = run (q_net s) (tops (t1 ++ t2))) by (unfold tops in *; rewrite map_app, run_app, <- N1; exact N2).
    destruct r; exact N12. }
  apply B. destruct (basis_g1 b) as [g|]; [|reflexivity].
  pose proof (native_net_run s (OGate1 hd g)) as N. destruct (native s (OGate1 hd g)) as [[s' r] t]. exact N.
Qed.

Lemma cmd_epr_measure_net_run i s known r adj qid bl br c1 c2 coins :
  q_net (fst (fst (fst (cmd_epr_measure i s known r adj qid bl br c1 c2 coins)))) =
  run (q_net s) (tops (snd (fst (cmd_epr_measure i s known r adj qid bl br c1 c2 coins)))).
Proof.
  unfold cmd_epr_measure, epr_fail_m. destruct (negb (epr_gate known i r adj)); [reflexivity|].
  pose proof (cmd_new_net_run i s (PP qid)) as N1.
  destruct (cmd_new i s (PP qid)) as [[s1 ok1] t1]. simpl in N1. destruct (negb ok1); [apply epr_fail_net_run; exact N1|].
  pose proof (cmd_new_net_run i s1 (PM qid)) as N2.
  destruct (cmd_new i s1 (PM qid)) as [[s2 ok2] t2]. simpl in N2.
  assert (N12 : q_net s2 = run (q_net s) (tops (t1 ++ t2))) by (unfold tops in *; rewrite map_app, run_app, <- N1; exact N2).
  destruct (negb ok2); [apply epr_fail_net_run; exact N12|].
  destruct (virt_of (q_host s2) (PP qid)) as [h1|]; [|apply epr_fail_net_run; exact N12].
  destruct (virt_of (q_host s2) (PM qid)) as [h2|]; [|apply epr_fail_net_run; exact N12].
  pose proof (native_net_run s2 (OGate1 h1 NH)) as N3. destruct (native s2 (OGate1 h1 NH)) as [[s3 r3] t3]. simpl in N3.
  pose proof (native_net_run s3 (OGate2 h1 h2 NCnot)) as N4. destruct (native s3 (OGate2 h1 h2 NCnot)) as [[s4 r4] t4]. simpl in N4.
  pose proof (measure_epr_qubit_net_run s4 (PP qid) bl c1) as N5. destruct (measure_epr_qubit s4 (PP qid) bl c1) as [[s5 o1] t5]. simpl in N5.
  assert (N15 : q_net s5 = run (q_net s) (tops (t1 ++ t2 ++ t3 ++ t4 ++ t5))).
  { unfold tops in *. rewrite !map_app, !run_app. rewrite <- N1, <- N2, <- N3, <- N4. exact N5. }
  destruct o1 as [v1|]; [|apply epr_fail_net_run; exact N15].
  pose proof (measure_epr_qubit_net_run s5 (PM qid) br c2) as N6. destruct (measure_epr_qubit s5 (PM qid) br c2) as [[s6 o2] t6]. simpl in N6.
  assert (N16 : q_net s6 = run (q_net s) (tops (t1 ++ t2 ++ t3 ++ t4 ++ t5 ++ t6))).
  { unfold tops in *. rewrite !map_app, !run_app. rewrite <- N1, <- N2, <- N3, <- N4, <- N5. exact N6. }
  destruct o2 as [v2|]; [exact N16|apply epr_fail_net_run; exact N16].
Qed.

(* ---- a pair creation that fails: the temporaries that exist are removed again ----------------------------------------------------- *)
Lemma filter_drop_mid_vn (l l2 : list (nat * nat)) n a : ~ In a (map snd l) -> ~ In a (map snd l2) ->
  filter (fun p => negb (Nat.eqb (snd p) a)) (l ++ (n, a) :: l2) = l ++ l2.
Proof.
  intros H1 H2. rewrite filter_app. cbn [filter snd]. rewrite Nat.eqb_refl. cbn [negb].
  assert (K : forall x : list (nat * nat), ~ In a (map snd x) -> filter (fun p => negb (Nat.eqb (snd p) a)) x = x).
  { induction x as [|y t IH]; simpl; auto. intro H. destruct (Nat.eqb_spec (snd y) a); simpl.
    - exfalso. apply H. auto.
    - f_equal. apply IH. intro; apply H; auto. }
  rewrite (K l H1), (K l2 H2). reflexivity.
Qed.

Lemma premove_comm k k' l : premove k (premove k' l) = premove k' (premove k l).
Proof.
  induction l as [|[k0 v0] t IH]; simpl; auto.
  destruct (pid_eqb k0 k') eqn:A; destruct (pid_eqb k0 k) eqn:B; simpl; rewrite ?A, ?B; congruence.
Qed.
Lemma premove_pset_neq k k' v l : k <> k' -> premove k (pset k' v l) = pset k' v (premove k l).
Proof.
  intro N. unfold pset. rewrite premove_app. simpl. destruct (pid_eqb_spec k' k); [congruence|]. f_equal.
  apply premove_comm.
Qed.

Lemma with_qlist_same h : with_qlist h (h_qlist h) = h.
Proof. destruct h; reflexivity. Qed.
Lemma with_qlist_twice h a b : with_qlist (with_qlist h a) b = with_qlist h b.
Proof. reflexivity. Qed.

(* _clear_phys_qubit_in_memory of a qubit that node i holds: always succeeds; the handle leaves node i, nothing else moves *)
Lemma clear_pid_live i s p c hd (l l2 : list (nat * nat)) num :
  ginv (q_net s) -> plookup p (h_qlist (q_host s)) = Some hd ->
  vn (nth_node (q_net s) i) = l ++ (num, hd) :: l2 -> ~ In hd (map snd l) -> ~ In hd (map snd l2) ->
  exists s' v, clear_pid s p c = (s', true, [(OMeas hd false c, Ok v)]) /\
    q_host s' = with_qlist (q_host s) (premove p (h_qlist (q_host s))) /\
    ginv (q_net s') /\ next_hid (q_net s) <= next_hid (q_net s') /\
    length (nodes (q_net s')) = length (nodes (q_net s)) /\
    vn (nth_node (q_net s') i) = l ++ l2 /\
    (forall j, j <> i -> vn (nth_node (q_net s') j) = vn (nth_node (q_net s) j)) /\
    q_net s' = fst (step (q_net s) (OMeas hd false c)).
Proof.
  intros G P V N1 N2.
  assert (Hin : In hd (hn (nth_node (q_net s) i))).
  { rewrite hn_vn, V, map_app. apply in_or_app. right. simpl. auto. }
  destruct (live_find (q_net s) i hd Hin) as (vi & q & F).
  assert (vi = i) by (eapply holder_is; eauto; apply G). subst vi.
  destruct (meas_live_ok (q_net s) hd false c i q (proj2 G) F) as (v & OK).
  pose proof (step_meas_vn (q_net s) hd c v i q) as MV.
  pose proof (step_meas_hn (q_net s) hd c v i q 0 OK F) as [_ ML].
  pose proof (step_ginv (q_net s) (OMeas hd false c) G) as G'.
  pose proof (step_next_mono (q_net s) (OMeas hd false c) (proj1 G)) as [Mo _].
  unfold clear_pid, virt_of. rewrite P. unfold native.
  destruct (step (q_net s) (OMeas hd false c)) as [n' r0] eqn:E. cbn [fst snd] in *. subst r0.
  eexists _, v. split; [reflexivity|]. cbn [q_net q_host].
  split; [reflexivity|]. split; [exact G'|]. split; [exact Mo|]. split; [exact ML|]. split; [|split; [|reflexivity]].
  - rewrite (MV i eq_refl F), Nat.eqb_refl, V. apply filter_drop_mid_vn; auto.
  - intros j Nj. rewrite (MV j eq_refl F). destruct (Nat.eqb_spec j i); [contradiction|reflexivity].
Qed.

(* the effect of a creation that does not succeed, whatever the reason (refused before any temporary exists, first or second
   cmd_new refused, the receiver refuses the half): the request answers an error, the host's bookkeeping (unit modules, used
   physical ids, qubitList, active applications) is exactly what it was, and so is the list of qubits EVERY node holds
   (handles and virtual numbers, in order) *)
Local Ltac same_state G0 :=
  split; [reflexivity|]; split; [reflexivity|]; split; [exact G0|]; split; [apply le_n|]; split; [reflexivity|];
  split; [intro; reflexivity|exists 0; split; [lia|symmetry; apply bump_0]].
Lemma epr_keep_failure_effect i s known r adj qid coins s' res tr :
  ginv (q_net s) ->
  (forall k hd, plookup k (h_qlist (q_host s)) = Some hd -> exists p, k = PP p /\ p <> qid) ->
  cmd_epr_keep i s known r adj qid coins = (s', res, tr) -> res <> RDone None ->
  res = RErr /\ q_host s' = q_host s /\ ginv (q_net s') /\ next_hid (q_net s) <= next_hid (q_net s') /\
  length (nodes (q_net s')) = length (nodes (q_net s)) /\
  (forall j, vn (nth_node (q_net s') j) = vn (nth_node (q_net s) j)) /\
  (* ... and, node by node, EVERYTHING but the register-number counter of node i (EprFailNode.v) *)
  exists k, k <= 2 /\ nodes (q_net s') = upd (nodes (q_net s)) i (bump (nth_node (q_net s) i) k).
Proof.
  intros G0 KK. set (ql := h_qlist (q_host s)).
  assert (NP : plookup (PP qid) ql = None).
  { destruct (plookup (PP qid) ql) as [y|] eqn:Y; auto. destruct (KK _ _ Y) as (p & Ep & Np). inversion Ep. congruence. }
  assert (NM : plookup (PM qid) ql = None).
  { destruct (plookup (PM qid) ql) as [y|] eqn:Y; auto. destruct (KK _ _ Y) as (p & Ep & _). discriminate. }
  unfold cmd_epr_keep. destruct (negb (epr_gate known i r adj)) eqn:Gt.
  { intros H _. inversion H; subst. same_state G0. }
  destruct (cmd_new i s (PP qid)) as [[s1 [|]] t1] eqn:C1; cbn [negb].
  2: { (* the first cmd_new is refused: nothing to remove *)
       apply cmd_new_fail in C1 as [-> _]. unfold epr_fail. cbn [epr_cleanup]. unfold virt_of. fold ql. rewrite NP, NM.
       intros H _. inversion H; subst. same_state G0. }
  apply cmd_new_ok in C1 as (v1 & S1 & Q1 & TT1).
  set (a1 := next_hid (q_net s)) in *.
  assert (E1 : q_net s1 = fst (step (q_net s) (ONew i))) by (rewrite S1; reflexivity).
  assert (G1 : ginv (q_net s1)) by (rewrite E1; apply step_ginv; exact G0).
  pose proof (new_ok_next _ _ _ _ S1) as X1. fold a1 in X1.
  assert (VN1 : forall j, vn (nth_node (q_net s1) j) = if Nat.eqb j i then vn (nth_node (q_net s) i) ++ [(v1, a1)] else vn (nth_node (q_net s) j)).
  { intro j. rewrite E1. apply (step_new_vn (q_net s) i v1 j). rewrite S1. reflexivity. }
  assert (L1 : length (nodes (q_net s1)) = length (nodes (q_net s))) by (rewrite E1; apply step_length).
  assert (FR1 : ~ In a1 (map snd (vn (nth_node (q_net s) i)))).
  { rewrite <- hn_vn. intro Hin. pose proof (hn_lt _ _ _ (proj1 G0) Hin). fold a1 in H. lia. }
  (* removing the first temporary alone from a state whose node i lists it last *)
  assert (ONE : forall sx, q_host sx = q_host s1 -> q_net sx = q_net s1 -> forall cs tx,
            exists sc tc, epr_fail sx qid cs tx = (sc, RErr, tc) /\ q_host sc = q_host s /\ ginv (q_net sc) /\
              next_hid (q_net s) <= next_hid (q_net sc) /\ length (nodes (q_net sc)) = length (nodes (q_net s)) /\
              (forall j, vn (nth_node (q_net sc) j) = vn (nth_node (q_net s) j)) /\
              exists k, k <= 2 /\ nodes (q_net sc) = upd (nodes (q_net s)) i (bump (nth_node (q_net s) i) k)).
  { intros sx HX NX cs tx. unfold epr_fail. cbn [epr_cleanup]. unfold virt_of. rewrite HX, Q1. cbn [h_qlist with_qlist]. fold ql.
    rewrite plookup_pset_eq.
    destruct (clear_pid_live i sx (PP qid) (hd false cs) a1 (vn (nth_node (q_net s) i)) [] v1) as (sA & vA & CA & QA & GA & MA & LA & VA & OA & NA).
    { rewrite NX. exact G1. }
    { rewrite HX, Q1. cbn [h_qlist with_qlist]. fold ql. apply plookup_pset_eq. }
    { rewrite NX, VN1, Nat.eqb_refl. reflexivity. }
    { exact FR1. }
    { simpl. tauto. }
    rewrite CA. rewrite QA, HX, Q1. cbn [h_qlist with_qlist]. fold ql.
    rewrite premove_pset, (premove_absent _ _ NP), NM. cbn [app].
    eexists _, _. split; [reflexivity|].
    split. { rewrite QA, HX, Q1. cbn [h_qlist with_qlist]. fold ql. rewrite premove_pset, (premove_absent _ _ NP).
             rewrite with_qlist_twice. apply with_qlist_same. }
    split; [exact GA|]. split; [rewrite NX in MA; lia|]. split; [rewrite LA, NX; exact L1|]. split.
    - intro j. destruct (Nat.eq_dec j i) as [->|Nj].
      + rewrite VA, app_nil_r. reflexivity.
      + rewrite (OA j Nj), NX, VN1. destruct (Nat.eqb_spec j i); [contradiction|reflexivity].
    - exists 1. split; [lia|]. rewrite NA, NX, E1.
      assert (OK1 : snd (step (q_net s) (ONew i)) = Ok v1) by (rewrite S1; reflexivity).
      pose proof (one_temp_restored i (q_net s) v1 (hd false cs) G0 OK1) as R1. unfold run in R1. cbn [fold_left] in R1.
      fold a1 in R1. rewrite R1. reflexivity. }
  destruct (cmd_new i s1 (PM qid)) as [[s2 [|]] t2] eqn:C2; cbn [negb].
  2: { (* the second cmd_new is refused: the first temporary is removed *)
       apply cmd_new_fail in C2 as [-> _].
       destruct (ONE s1 eq_refl eq_refl coins (t1 ++ t2)) as (sc & tc & EF & R).
       rewrite EF. intros H _. inversion H; subst. split; [reflexivity|exact R]. }
  apply cmd_new_ok in C2 as (v2 & S2 & Q2 & TT2).
  set (a2 := next_hid (q_net s1)) in *.
  assert (V1 : virt_of (q_host s2) (PP qid) = Some a1).
  { unfold virt_of. rewrite Q2. cbn [h_qlist with_qlist]. rewrite plookup_pset_neq by discriminate.
    rewrite Q1. cbn [h_qlist with_qlist]. apply plookup_pset_eq. }
  assert (V2 : virt_of (q_host s2) (PM qid) = Some a2).
  { unfold virt_of. rewrite Q2. cbn [h_qlist with_qlist]. apply plookup_pset_eq. }
  rewrite V1, V2.
  destruct (native s2 (OGate1 a1 NH)) as [[s3 r3] t3] eqn:C3. destruct (native s3 (OGate2 a1 a2 NCnot)) as [[s4 r4] t4] eqn:C4.
  destruct (native s4 (OSend a2 r)) as [[s5 r5] t5] eqn:C5.
  apply native_eq in C3 as (S3 & Q3 & TT3). apply native_eq in C4 as (S4 & Q4 & TT4). apply native_eq in C5 as (S5 & Q5 & TT5).
  assert (E2 : q_net s2 = fst (step (q_net s1) (ONew i))) by (rewrite S2; reflexivity).
  assert (E3 : q_net s3 = fst (step (q_net s2) (OGate1 a1 NH))) by (rewrite S3; reflexivity).
  assert (E4 : q_net s4 = fst (step (q_net s3) (OGate2 a1 a2 NCnot))) by (rewrite S4; reflexivity).
  assert (G2 : ginv (q_net s2)) by (rewrite E2; apply step_ginv; exact G1).
  assert (G3 : ginv (q_net s3)) by (rewrite E3; apply step_ginv; exact G2).
  assert (G4 : ginv (q_net s4)) by (rewrite E4; apply step_ginv; exact G3).
  pose proof (new_ok_next _ _ _ _ S2) as X2. fold a2 in X2.
  assert (M3 : next_hid (q_net s2) <= next_hid (q_net s3)) by (rewrite E3; apply step_next_mono; apply G2).
  assert (M4 : next_hid (q_net s3) <= next_hid (q_net s4)) by (rewrite E4; apply step_next_mono; apply G3).
  assert (VN2 : forall j, vn (nth_node (q_net s2) j) = if Nat.eqb j i then vn (nth_node (q_net s1) i) ++ [(v2, a2)] else vn (nth_node (q_net s1) j)).
  { intro j. rewrite E2. apply (step_new_vn (q_net s1) i v2 j). rewrite S2. reflexivity. }
  assert (VN3 : forall j, vn (nth_node (q_net s3) j) = vn (nth_node (q_net s2) j)).
  { intro j. rewrite E3. apply (step_quiet_vn (q_net s2) (OGate1 a1 NH) j eq_refl). }
  assert (VN4 : forall j, vn (nth_node (q_net s4) j) = vn (nth_node (q_net s3) j)).
  { intro j. rewrite E4. apply (step_quiet_vn (q_net s3) (OGate2 a1 a2 NCnot) j eq_refl). }
  assert (VI4 : vn (nth_node (q_net s4) i) = vn (nth_node (q_net s) i) ++ [(v1, a1); (v2, a2)]).
  { rewrite VN4, VN3, VN2, Nat.eqb_refl, VN1, Nat.eqb_refl, <- app_assoc. reflexivity. }
  assert (VJ4 : forall j, j <> i -> vn (nth_node (q_net s4) j) = vn (nth_node (q_net s) j)).
  { intros j Nj. rewrite VN4, VN3, VN2. destruct (Nat.eqb_spec j i); [contradiction|]. rewrite VN1.
    destruct (Nat.eqb_spec j i); [contradiction|reflexivity]. }
  assert (L4 : length (nodes (q_net s4)) = length (nodes (q_net s))).
  { rewrite E4, step_length, E3, step_length, E2, step_length. exact L1. }
  assert (A12 : a2 = S a1) by (unfold a2; exact X1).
  assert (FR2 : ~ In a2 (map snd (vn (nth_node (q_net s) i)))).
  { rewrite <- hn_vn. intro Hin. pose proof (hn_lt _ _ _ (proj1 G0) Hin). fold a1 in H. lia. }
  assert (QH5 : h_qlist (q_host s5) = pset (PM qid) a2 (pset (PP qid) a1 ql)).
  { rewrite Q5, Q4, Q3, Q2. cbn [h_qlist with_qlist]. rewrite Q1. reflexivity. }
  assert (BOTH : (forall v, r5 <> Ok v) -> forall tx,
            exists sc tc, epr_fail s5 qid coins tx = (sc, RErr, tc) /\ q_host sc = q_host s /\ ginv (q_net sc) /\
              next_hid (q_net s) <= next_hid (q_net sc) /\ length (nodes (q_net sc)) = length (nodes (q_net s)) /\
              (forall j, vn (nth_node (q_net sc) j) = vn (nth_node (q_net s) j)) /\
              exists k, k <= 2 /\ nodes (q_net sc) = upd (nodes (q_net s)) i (bump (nth_node (q_net s) i) k)).
  { intros NOK tx.
    assert (N5 : q_net s5 = q_net s4).
    { pose proof (step_not_ok_same (q_net s4) (OSend a2 r)) as Y. rewrite S5 in Y. cbn [fst snd] in Y. apply Y; auto. }
    unfold epr_fail. cbn [epr_cleanup]. unfold virt_of. rewrite QH5.
    rewrite plookup_pset_neq by discriminate. rewrite plookup_pset_eq.
    destruct (clear_pid_live i s5 (PP qid) (hd false coins) a1 (vn (nth_node (q_net s) i)) [(v2, a2)] v1)
      as (sA & vA & CA & QA & GA & MA & LA & VA & OA & NA).
    { rewrite N5. exact G4. }
    { rewrite QH5. rewrite plookup_pset_neq by discriminate. apply plookup_pset_eq. }
    { rewrite N5, VI4. reflexivity. }
    { exact FR1. }
    { simpl. intros [X|[]]. lia. }
    rewrite CA.
    assert (QLA : h_qlist (q_host sA) = pset (PM qid) a2 ql).
    { rewrite QA. cbn [h_qlist with_qlist]. rewrite QH5. rewrite premove_pset_neq by discriminate.
      rewrite premove_pset, (premove_absent _ _ NP). reflexivity. }
    rewrite QLA, plookup_pset_eq.
    destruct (clear_pid_live i sA (PM qid) (hd false (tl coins)) a2 (vn (nth_node (q_net s) i)) [] v2)
      as (sB & vB & CB & QB & GB & MB & LB & VB & OB & NB).
    { exact GA. }
    { rewrite QLA. apply plookup_pset_eq. }
    { exact VA. }
    { exact FR2. }
    { simpl. tauto. }
    rewrite CB. cbn [epr_cleanup]. eexists _, _. split; [reflexivity|].
    split.
    { rewrite QB, QLA, premove_pset, (premove_absent _ _ NM). rewrite QA, with_qlist_twice, Q5, Q4, Q3, Q2, Q1, !with_qlist_twice.
      apply with_qlist_same. }
    split; [exact GB|]. split; [rewrite N5 in MA; lia|]. split; [rewrite LB, LA, N5; exact L4|]. split.
    - intro j. destruct (Nat.eq_dec j i) as [->|Nj].
      + rewrite VB, app_nil_r. reflexivity.
      + rewrite (OB j Nj), (OA j Nj), N5. apply VJ4. exact Nj.
    - exists 2. split; [lia|]. rewrite NB, NA, N5, E4, E3, E2, E1.
      assert (OK1 : snd (step (q_net s) (ONew i)) = Ok v1) by (rewrite S1; reflexivity).
      assert (OK2 : snd (step (fst (step (q_net s) (ONew i))) (ONew i)) = Ok v2) by (rewrite <- E1, S2; reflexivity).
      pose proof (two_temps_restored i (q_net s) v1 v2 (hd false coins) (hd false (tl coins)) G0 OK1 OK2) as R2.
      unfold run in R2. cbn [fold_left] in R2. fold a1 in R2. rewrite <- A12 in R2. rewrite R2. reflexivity. }
  destruct r5 as [v5| | |].
  - intros H ND. inversion H; subst. exfalso. apply ND. reflexivity.
  - destruct (BOTH ltac:(intros; discriminate) (t1 ++ t2 ++ t3 ++ t4 ++ t5)) as (sc & tc & EF & R).
    rewrite EF. intros H _. inversion H; subst. split; [reflexivity|exact R].
  - destruct (BOTH ltac:(intros; discriminate) (t1 ++ t2 ++ t3 ++ t4 ++ t5)) as (sc & tc & EF & R).
    rewrite EF. intros H _. inversion H; subst. split; [reflexivity|exact R].
  - destruct (BOTH ltac:(intros; discriminate) (t1 ++ t2 ++ t3 ++ t4 ++ t5)) as (sc & tc & EF & R).
    rewrite EF. intros H _. inversion H; subst. split; [reflexivity|exact R].
Qed.

(* ---- the effect of a successful creation on the handle lists ------------------------------------------------------------------ *)
Lemma epr_keep_effect i s known r adj qid coins s' tr :
  ginv (q_net s) -> (forall k hd, plookup k (h_qlist (q_host s)) = Some hd -> exists p, k = PP p) ->
  cmd_epr_keep i s known r adj qid coins = (s', RDone None, tr) ->
  let a1 := next_hid (q_net s) in
  let x := pred (next_hid (q_net s')) in
  r <> i /\ r < length (nodes (q_net s)) /\
  q_host s' = with_qlist (q_host s) (pset (PP qid) a1 (h_qlist (q_host s))) /\
  ginv (q_net s') /\ a1 < x /\ x < next_hid (q_net s') /\
  hn (nth_node (q_net s') i) = hn (nth_node (q_net s) i) ++ [a1] /\
  hn (nth_node (q_net s') r) = hn (nth_node (q_net s) r) ++ [x] /\
  (forall j, j <> i -> j <> r -> hn (nth_node (q_net s') j) = hn (nth_node (q_net s) j)) /\
  length (nodes (q_net s')) = length (nodes (q_net s)) /\
  (* the same at the level of (virtual number, handle): the receiving node lists the half under the number the send
     returned, and that number was not in use there *)
  (exists n1, vn (nth_node (q_net s') i) = vn (nth_node (q_net s) i) ++ [(n1, a1)]) /\
  vn (nth_node (q_net s') r) = vn (nth_node (q_net s) r) ++ [(sent_num tr, x)] /\
  ~ In (sent_num tr) (map fst (vn (nth_node (q_net s) r))) /\
  (forall j, j <> i -> j <> r -> vn (nth_node (q_net s') j) = vn (nth_node (q_net s) j)).
Proof.
  intros G0 KK. unfold cmd_epr_keep.
  assert (F : forall s0 tr0, epr_fail s0 qid coins tr0 <> (s', RDone None, tr)).
  { intros s0 tr0 E. pose proof (epr_fail_res s0 qid coins tr0) as R. rewrite E in R. discriminate. }
  destruct (negb (epr_gate known i r adj)) eqn:G; [discriminate|].
  apply negb_false_iff in G. apply epr_gate_iff in G as (_ & Nr & _).
  destruct (cmd_new i s (PP qid)) as [[s1 [|]] t1] eqn:C1; cbn [negb]; [|intro E; destruct (F _ _ E)].
  destruct (cmd_new i s1 (PM qid)) as [[s2 [|]] t2] eqn:C2; cbn [negb]; [|intro E; destruct (F _ _ E)].
  apply cmd_new_ok in C1 as (v1 & S1 & Q1 & TT1). apply cmd_new_ok in C2 as (v2 & S2 & Q2 & TT2).
  set (a1 := next_hid (q_net s)) in *. set (a2 := next_hid (q_net s1)) in *.
  assert (V1 : virt_of (q_host s2) (PP qid) = Some a1).
  { unfold virt_of. rewrite Q2. cbn [h_qlist with_qlist]. rewrite plookup_pset_neq by discriminate.
    rewrite Q1. cbn [h_qlist with_qlist]. apply plookup_pset_eq. }
  assert (V2 : virt_of (q_host s2) (PM qid) = Some a2).
  { unfold virt_of. rewrite Q2. cbn [h_qlist with_qlist]. apply plookup_pset_eq. }
  rewrite V1, V2.
  destruct (native s2 (OGate1 a1 NH)) as [[s3 r3] t3] eqn:C3. destruct (native s3 (OGate2 a1 a2 NCnot)) as [[s4 r4] t4] eqn:C4.
  destruct (native s4 (OSend a2 r)) as [[s5 r5] t5] eqn:C5.
  apply native_eq in C3 as (S3 & Q3 & TT3). apply native_eq in C4 as (S4 & Q4 & TT4). apply native_eq in C5 as (S5 & Q5 & TT5).
  destruct r5 as [v5| | |]; try (intro E; destruct (F _ _ E)). clear F. intro H. inversion H; subst s' tr. clear H. cbn [q_net q_host].
  (* the network, step by step *)
  assert (E1 : q_net s1 = fst (step (q_net s) (ONew i))) by (rewrite S1; reflexivity).
  assert (E2 : q_net s2 = fst (step (q_net s1) (ONew i))) by (rewrite S2; reflexivity).
  assert (E3 : q_net s3 = fst (step (q_net s2) (OGate1 a1 NH))) by (rewrite S3; reflexivity).
  assert (E4 : q_net s4 = fst (step (q_net s3) (OGate2 a1 a2 NCnot))) by (rewrite S4; reflexivity).
  assert (E5 : q_net s5 = fst (step (q_net s4) (OSend a2 r))) by (rewrite S5; reflexivity).
  assert (G1 : ginv (q_net s1)) by (rewrite E1; apply step_ginv; exact G0).
  assert (G2 : ginv (q_net s2)) by (rewrite E2; apply step_ginv; exact G1).
  assert (G3 : ginv (q_net s3)) by (rewrite E3; apply step_ginv; exact G2).
  assert (G4 : ginv (q_net s4)) by (rewrite E4; apply step_ginv; exact G3).
  assert (G5 : ginv (q_net s5)) by (rewrite E5; apply step_ginv; exact G4).
  pose proof (new_ok_next _ _ _ _ S1) as X1. fold a1 a2 in X1.
  pose proof (new_ok_next _ _ _ _ S2) as X2. fold a2 in X2.
  assert (M3 : next_hid (q_net s2) <= next_hid (q_net s3)) by (rewrite E3; apply step_next_mono; apply G2).
  assert (M4 : next_hid (q_net s3) <= next_hid (q_net s4)) by (rewrite E4; apply step_next_mono; apply G3).
  assert (HN1 : forall j, hn (nth_node (q_net s1) j) = if Nat.eqb j i then hn (nth_node (q_net s) i) ++ [a1] else hn (nth_node (q_net s) j)).
  { intro j. rewrite E1. apply (step_new_hn (q_net s) i v1 j). rewrite S1. reflexivity. }
  assert (L1 : length (nodes (q_net s1)) = length (nodes (q_net s))) by (rewrite E1; apply step_length).
  assert (HN2 : forall j, hn (nth_node (q_net s2) j) = if Nat.eqb j i then hn (nth_node (q_net s1) i) ++ [a2] else hn (nth_node (q_net s1) j)).
  { intro j. rewrite E2. apply (step_new_hn (q_net s1) i v2 j). rewrite S2. reflexivity. }
  assert (HN3 : forall j, hn (nth_node (q_net s3) j) = hn (nth_node (q_net s2) j)).
  { intro j. rewrite E3. apply (step_quiet (q_net s2) (OGate1 a1 NH) j eq_refl). }
  assert (HN4 : forall j, hn (nth_node (q_net s4) j) = hn (nth_node (q_net s3) j)).
  { intro j. rewrite E4. apply (step_quiet (q_net s3) (OGate2 a1 a2 NCnot) j eq_refl). }
  assert (HI4 : hn (nth_node (q_net s4) i) = hn (nth_node (q_net s) i) ++ [a1; a2]).
  { rewrite HN4, HN3, HN2, Nat.eqb_refl, HN1, Nat.eqb_refl, <- app_assoc. reflexivity. }
  assert (HJ4 : forall j, j <> i -> hn (nth_node (q_net s4) j) = hn (nth_node (q_net s) j)).
  { intros j Nj. rewrite HN4, HN3, HN2. destruct (Nat.eqb_spec j i); [contradiction|]. rewrite HN1.
    destruct (Nat.eqb_spec j i); [contradiction|reflexivity]. }
  assert (In4 : In a2 (hn (nth_node (q_net s4) i))) by (rewrite HI4; apply in_or_app; right; simpl; auto).
  destruct (live_find (q_net s4) i a2 In4) as (vi & vq & F).
  assert (vi = i) by (eapply holder_is; eauto; apply G4). subst vi.
  assert (OK5 : snd (step (q_net s4) (OSend a2 r)) = Ok v5) by (rewrite S5; reflexivity).
  assert (Nir : i <> r) by congruence.
  assert (HN5 : forall j, hn (nth_node (q_net s5) j) =
                          if Nat.eqb j i then filter (fun x => negb (Nat.eqb x a2)) (hn (nth_node (q_net s4) i))
                          else if Nat.eqb j r then hn (nth_node (q_net s4) r) ++ [next_hid (q_net s4)] else hn (nth_node (q_net s4) j)).
  { intro j. rewrite E5. apply (step_send_hn (q_net s4) a2 r v5 i vq j OK5 F Nir). }
  destruct (step_send_hn (q_net s4) a2 r v5 i vq 0 OK5 F Nir) as (_ & L5 & Lr & X5). rewrite <- E5 in L5, X5.
  assert (L4 : length (nodes (q_net s4)) = length (nodes (q_net s))).
  { rewrite E4, step_length, E3, step_length, E2, step_length. exact L1. }
  rewrite X5. cbn [pred].
  split; [exact Nr|]. split; [lia|]. split.
  { rewrite Q5, Q4, Q3, Q2, Q1. unfold with_qlist. cbn [h_active h_units h_used h_qlist]. f_equal.
    rewrite premove_pset. apply premove_absent.
    rewrite plookup_pset_neq by discriminate.
    destruct (plookup (PM qid) (h_qlist (q_host s))) as [y|] eqn:Y; auto. destruct (KK _ _ Y) as (p & Ep). discriminate. }
  split; [exact G5|]. split; [lia|]. split; [lia|]. split.
  { rewrite HN5, Nat.eqb_refl, HI4. apply filter_drop_last; [|lia].
    intro Hin. pose proof (hn_lt _ _ _ (proj1 G0) Hin). fold a1 in H. lia. }
  split.
  { rewrite HN5. destruct (Nat.eqb_spec r i); [contradiction|]. rewrite Nat.eqb_refl. rewrite HJ4 by exact Nr. reflexivity. }
  split.
  { intros j Nj Njr. rewrite HN5. destruct (Nat.eqb_spec j i); [contradiction|]. destruct (Nat.eqb_spec j r); [contradiction|].
    apply HJ4. exact Nj. }
  split; [lia|].
  (* numbers *)
  assert (SN : sent_num (t1 ++ t2 ++ t3 ++ t4 ++ t5) = v5).
  { unfold sent_num. subst t5. rewrite !app_assoc. rewrite last_last. reflexivity. }
  rewrite SN.
  assert (VN1 : forall j, vn (nth_node (q_net s1) j) = if Nat.eqb j i then vn (nth_node (q_net s) i) ++ [(v1, a1)] else vn (nth_node (q_net s) j)).
  { intro j. rewrite E1. apply (step_new_vn (q_net s) i v1 j). rewrite S1. reflexivity. }
  assert (VN2 : forall j, vn (nth_node (q_net s2) j) = if Nat.eqb j i then vn (nth_node (q_net s1) i) ++ [(v2, a2)] else vn (nth_node (q_net s1) j)).
  { intro j. rewrite E2. apply (step_new_vn (q_net s1) i v2 j). rewrite S2. reflexivity. }
  assert (VN3 : forall j, vn (nth_node (q_net s3) j) = vn (nth_node (q_net s2) j)).
  { intro j. rewrite E3. apply (step_quiet_vn (q_net s2) (OGate1 a1 NH) j eq_refl). }
  assert (VN4 : forall j, vn (nth_node (q_net s4) j) = vn (nth_node (q_net s3) j)).
  { intro j. rewrite E4. apply (step_quiet_vn (q_net s3) (OGate2 a1 a2 NCnot) j eq_refl). }
  assert (VI4 : vn (nth_node (q_net s4) i) = vn (nth_node (q_net s) i) ++ [(v1, a1); (v2, a2)]).
  { rewrite VN4, VN3, VN2, Nat.eqb_refl, VN1, Nat.eqb_refl, <- app_assoc. reflexivity. }
  assert (VJ4 : forall j, j <> i -> vn (nth_node (q_net s4) j) = vn (nth_node (q_net s) j)).
  { intros j Nj. rewrite VN4, VN3, VN2. destruct (Nat.eqb_spec j i); [contradiction|]. rewrite VN1.
    destruct (Nat.eqb_spec j i); [contradiction|reflexivity]. }
  destruct (step_send_vn (q_net s4) a2 r v5 i vq 0 OK5 F Nir) as [_ FR5].
  assert (VN5 : forall j, vn (nth_node (q_net s5) j) =
                          if Nat.eqb j i then filter (fun p => negb (Nat.eqb (snd p) a2)) (vn (nth_node (q_net s4) i))
                          else if Nat.eqb j r then vn (nth_node (q_net s4) r) ++ [(v5, next_hid (q_net s4))] else vn (nth_node (q_net s4) j)).
  { intro j. rewrite E5. apply (step_send_vn (q_net s4) a2 r v5 i vq j OK5 F Nir). }
  split.
  { exists v1. rewrite VN5, Nat.eqb_refl, VI4. apply filter_drop_last_vn; [|lia].
    rewrite <- hn_vn. intro Hin. pose proof (hn_lt _ _ _ (proj1 G0) Hin). fold a1 in H. lia. }
  split.
  { rewrite VN5. destruct (Nat.eqb_spec r i); [contradiction|]. rewrite Nat.eqb_refl. rewrite VJ4 by exact Nr. reflexivity. }
  split.
  { rewrite <- (VJ4 r Nr). exact FR5. }
  intros j Nj Njr. rewrite VN5. destruct (Nat.eqb_spec j i); [contradiction|]. destruct (Nat.eqb_spec j r); [contradiction|].
  apply VJ4. exact Nj.
Qed.

(* ---- one measure-directly pair: whatever happens, nothing is left; when it succeeds the outcomes are the table's ------------------ *)
Lemma vn_of_bumped n n' i k : nodes n' = upd (nodes n) i (bump (nth_node n i) k) ->
  forall j, vn (nth_node n' j) = vn (nth_node n j).
Proof. intros E j. destruct (bumped_same_fields n n' i k E j) as (A & _). unfold vn. rewrite A. reflexivity. Qed.

Lemma epr_measure_effect i s known r adj qid bl br c1 c2 coins s' res tr o :
  ginv (q_net s) ->
  (forall k hd, plookup k (h_qlist (q_host s)) = Some hd -> exists p, k = PP p /\ p <> qid) ->
  cmd_epr_measure i s known r adj qid bl br c1 c2 coins = (s', res, tr, o) ->
  q_host s' = q_host s /\ ginv (q_net s') /\ next_hid (q_net s) <= next_hid (q_net s') /\
  length (nodes (q_net s')) = length (nodes (q_net s)) /\
  (forall j, vn (nth_node (q_net s') j) = vn (nth_node (q_net s) j)) /\
  (exists k, k <= 2 /\ nodes (q_net s') = upd (nodes (q_net s)) i (bump (nth_node (q_net s) i) k)) /\
  ((res = RDone None /\ o = Some (b2n (fst (md_outcomes bl br c1 c2)), b2n (snd (md_outcomes bl br c1 c2))) /\
    epr_gate known i r adj = true /\
    tops tr = md_ops i (next_hid (q_net s)) (S (next_hid (q_net s))) bl br c1 c2 /\
    next_hid (q_net s') = S (S (next_hid (q_net s))))
   \/ (res = RErr /\ o = None)).
Proof.
  intros G0 KK CM. set (ql := h_qlist (q_host s)).
  assert (NP : plookup (PP qid) ql = None).
  { destruct (plookup (PP qid) ql) as [y|] eqn:Y; auto. destruct (KK _ _ Y) as (p & Ep & Np). inversion Ep. congruence. }
  assert (NM : plookup (PM qid) ql = None).
  { destruct (plookup (PM qid) ql) as [y|] eqn:Y; auto. destruct (KK _ _ Y) as (p & Ep & _). discriminate. }
  (* refused by the checks or by a cmd_new: the create-and-keep code path *)
  assert (REF : epr_gate known i r adj = false \/ snd (fst (cmd_new i s (PP qid))) = false \/
                snd (fst (cmd_new i (fst (fst (cmd_new i s (PP qid)))) (PM qid))) = false ->
                q_host s' = q_host s /\ ginv (q_net s') /\ next_hid (q_net s) <= next_hid (q_net s') /\
                length (nodes (q_net s')) = length (nodes (q_net s)) /\
                (forall j, vn (nth_node (q_net s') j) = vn (nth_node (q_net s) j)) /\
                (exists k, k <= 2 /\ nodes (q_net s') = upd (nodes (q_net s)) i (bump (nth_node (q_net s) i) k)) /\
                res = RErr /\ o = None).
  { intro D. rewrite (measure_refused_as_keep i s known r adj qid bl br c1 c2 coins D) in CM.
    pose proof (keep_refused_is_err i s known r adj qid coins D) as RE.
    destruct (cmd_epr_keep i s known r adj qid coins) as [[sk resk] trk] eqn:CK. cbn [fst snd] in RE. subst resk.
    inversion CM; subst sk res trk o.
    destruct (epr_keep_failure_effect i s known r adj qid coins s' RErr tr G0 KK CK) as (_ & QH & G1 & Mo & LL & VV & NB).
    { discriminate. }
    repeat (split; auto). }
  destruct (epr_gate known i r adj) eqn:Gt; [|destruct (REF (or_introl eq_refl)) as (A & B & C & D & E & F & H1 & H2); repeat (split; auto)].
  destruct (cmd_new i s (PP qid)) as [[s1 [|]] t1] eqn:C1;
    [|destruct (REF (or_intror (or_introl eq_refl))) as (A & B & C & D & E & F & H1 & H2); repeat (split; auto)].
  destruct (cmd_new i s1 (PM qid)) as [[s2 [|]] t2] eqn:C2;
    [|cbn [fst snd] in REF; rewrite C2 in REF; cbn [fst snd] in REF; destruct (REF (or_intror (or_intror eq_refl))) as (A & B & C & D & E & F & H1 & H2); repeat (split; auto)].
  clear REF.
  unfold cmd_epr_measure in CM. rewrite Gt, C1 in CM. cbn [negb] in CM. rewrite C2 in CM. cbn [negb] in CM.
  apply cmd_new_ok in C1 as (v1 & S1 & Q1 & TT1). apply cmd_new_ok in C2 as (v2 & S2 & Q2 & TT2).
  set (a1 := next_hid (q_net s)) in *.
  destruct (md_steps i (q_net s) (q_net s1) (q_net s2) v1 v2 bl br c1 c2 G0 S1 S2)
    as (n3 & n4 & n5 & n6 & n7 & S3 & S4 & S5 & S6 & S7 & S8 & X1 & X2 & GF & _).
  fold a1 in S3, S4, S5, S6, S7, S8, X1, X2, GF. rewrite X1 in Q2.
  set (a2 := S a1) in *.
  set (o1 := b2n (fst (md_outcomes bl br c1 c2))) in *. set (o2 := b2n (snd (md_outcomes bl br c1 c2))) in *.
  assert (QL2 : h_qlist (q_host s2) = pset (PM qid) a2 (pset (PP qid) a1 ql)).
  { rewrite Q2. cbn [h_qlist with_qlist]. rewrite Q1. reflexivity. }
  assert (V1 : virt_of (q_host s2) (PP qid) = Some a1).
  { unfold virt_of. rewrite QL2. rewrite plookup_pset_neq by discriminate. apply plookup_pset_eq. }
  assert (V2 : virt_of (q_host s2) (PM qid) = Some a2).
  { unfold virt_of. rewrite QL2. apply plookup_pset_eq. }
  rewrite V1, V2 in CM. unfold native in CM. rewrite S3 in CM. cbn [q_net q_host] in CM. rewrite S4 in CM. cbn [q_net q_host] in CM.
  (* the first temporary: rotated, measured, removed from qubitList *)
  assert (M1 : measure_epr_qubit (mkQ n4 (q_host s2)) (PP qid) bl c1 =
               (mkQ n6 (with_qlist (q_host s2) (pset (PM qid) a2 ql)), Some o1,
                map (fun x => (x, OkNone)) (basis_ops a1 bl) ++ [(OMeas a1 false c1, Ok o1)])).
  { unfold measure_epr_qubit. cbn [q_host]. rewrite V1. unfold native, basis_ops. cbn [q_net q_host].
    assert (QF : premove (PP qid) (h_qlist (q_host s2)) = pset (PM qid) a2 ql).
    { rewrite QL2, premove_pset_neq by discriminate. rewrite premove_pset, (premove_absent _ _ NP). reflexivity. }
    destruct (basis_g1 bl) as [g|].
    - cbn [q_net q_host]. rewrite S5. cbn [is_err q_net q_host]. rewrite S6. cbn [q_net q_host map app]. rewrite QF. reflexivity.
    - subst n5. cbn [q_net q_host]. rewrite S6. cbn [q_net q_host map app]. rewrite QF. reflexivity. }
  rewrite M1 in CM.
  set (h5 := with_qlist (q_host s2) (pset (PM qid) a2 ql)) in *.
  assert (M2 : measure_epr_qubit (mkQ n6 h5) (PM qid) br c2 =
               (mkQ (mkNet (upd (nodes (q_net s)) i (bump (nth_node (q_net s) i) 2)) (S (S a1))) (q_host s), Some o2,
                map (fun x => (x, OkNone)) (basis_ops a2 br) ++ [(OMeas a2 false c2, Ok o2)])).
  { unfold measure_epr_qubit. cbn [q_host]. unfold virt_of, h5. cbn [h_qlist with_qlist]. rewrite plookup_pset_eq.
    unfold native, basis_ops. cbn [q_net q_host].
    assert (QF : with_qlist (with_qlist (q_host s2) (pset (PM qid) a2 ql)) (premove (PM qid) (pset (PM qid) a2 ql)) = q_host s).
    { rewrite premove_pset, (premove_absent _ _ NM), with_qlist_twice, Q2, with_qlist_twice, Q1, with_qlist_twice. apply with_qlist_same. }
    destruct (basis_g1 br) as [g|].
    - cbn [q_net q_host]. rewrite S7. cbn [is_err q_net q_host]. rewrite S8. cbn [q_net q_host map app h_qlist with_qlist]. rewrite QF. reflexivity.
    - subst n7. cbn [q_net q_host]. rewrite S8. cbn [q_net q_host map app h_qlist with_qlist]. rewrite QF. reflexivity. }
  rewrite M2 in CM. inversion CM; subst s' res tr o. clear CM. cbn [q_net q_host nodes next_hid].
  split; [reflexivity|]. split; [exact GF|]. split; [lia|]. split; [rewrite upd_length; reflexivity|].
  split; [apply (vn_of_bumped (q_net s) _ i 2); reflexivity|]. split; [exists 2; split; [lia|reflexivity]|].
  left. split; [reflexivity|]. split; [reflexivity|]. split; [reflexivity|]. split; [|reflexivity].
  subst t1 t2. unfold tops, md_ops. cbn [app map fst]. rewrite !map_app, !map_map. cbn [fst map]. rewrite !map_id, <- !app_assoc. reflexivity.
Qed.

(* ---- the global invariant ---------------------------------------------------------------------------------------------------------- *)
Record ninv (s : nst) : Prop := mkNinv {
  g_len : length (n_hosts s) = length (nodes (n_net s));
  g_ginv : ginv (n_net s);
  g_host : forall i, i < length (n_hosts s) -> tinvx i (pend_at (n_pend s) i) (mkQ (n_net s) (host_at s i));
  g_leak : forall i, i < length (n_hosts s) -> leakfree (mkQ (n_net s) (host_at s i));
  (* looking an unclaimed half up by the number stored with it finds the delivered qubit itself *)
  g_num : forall e, In (DK e) (n_pend s) -> hid_of_num (nth_node (n_net s) (p_node e)) (p_num e) = Some (p_hd e)
}.

Lemma in_halves pd e : In (DK e) pd <-> In e (halves pd).
Proof.
  induction pd as [|[e'|n k m] t IH]; simpl; [tauto| |].
  - rewrite <- IH. split; intros [H|H]; auto; left; congruence.
  - rewrite <- IH. split; [intros [H|H]; [discriminate|auto]|auto].
Qed.
Lemma in_pend_at pd e : In (DK e) pd -> In (p_hd e) (pend_at pd (p_node e)).
Proof. intro H. apply in_halves in H. unfold pend_at. apply in_map. apply filter_In. split; auto. apply Nat.eqb_refl. Qed.

(* reserving one more physical id changes nothing the invariants speak about *)
Lemma tinvx_keep_used i ex n h q : tinvx i ex (mkQ n h) -> tinvx i ex (mkQ n (keep_used h q)).
Proof.
  intros [H I K N O E D M]. constructor; auto.
  - destruct H as [Hn U J L Q]. constructor; auto. cbn [q_host keep_used with_used h_units h_used] in *.
    intros app um a p A B. apply insert_sorted_in. right. eapply U; eauto.
  - cbn [q_host keep_used with_used h_qlist h_used] in *. intros k hd Hk. destruct (K k hd Hk) as (p & Ep & Hp).
    exists p. split; auto. apply insert_sorted_in. auto.
Qed.
Lemma leakfree_keep_used n h q : leakfree (mkQ n h) -> leakfree (mkQ n (keep_used h q)).
Proof. intro H. exact H. Qed.

Lemma host_at_init caps i : host_at (ninit caps) i = empty_host.
Proof. unfold host_at, ninit. cbn [n_hosts]. revert i. induction caps as [|c t IH]; intros [|i]; simpl; auto. Qed.

Lemma init_ninv caps : ninv (ninit caps).
Proof.
  constructor.
  - simpl. rewrite !map_length. reflexivity.
  - split; [apply init_hid_inv|apply init_inv].
  - intros i Hi. rewrite host_at_init. apply (tinv_is_tinvx i (init_q caps)). apply init_tinv.
  - intros i Hi k hd H. rewrite host_at_init in H. discriminate.
  - intros e [].
Qed.

Lemma host_at_upd_eq s n i h pd : i < length (n_hosts s) -> host_at (mkN n (upd (n_hosts s) i h) pd) i = h.
Proof. intro H. unfold host_at. cbn [n_hosts]. apply nth_upd_eq. exact H. Qed.
Lemma host_at_upd_neq s n i j h pd : j <> i -> host_at (mkN n (upd (n_hosts s) i h) pd) j = host_at s j.
Proof. intro H. unfold host_at. cbn [n_hosts]. apply nth_upd_neq. auto. Qed.

Lemma exec_next_mono i s q : hid_inv (q_net s) -> next_hid (q_net s) <= next_hid (q_net (fst (fst (exec i s q)))).
Proof. intro H. rewrite exec_net_run. apply run_hid_inv. exact H. Qed.

(* every clean action keeps the global invariant *)
Theorem nstep_ninv s x : ninv s -> clean s x -> ninv (nstep s x).
Proof.
  intros [GL GG GH GK GN] C. unfold nstep.
  destruct x as [i q|i app a known r adj rsock coins|i app a sock|i known r adj lsock rsock seq bl br c1 c2 coins]; cbn [nstep_r].
  - (* an instruction of host i *)
    destruct (Nat.ltb_spec i (length (n_hosts s))) as [Hi|Hi]; [|constructor; auto].
    pose proof (xexec_v i _ _ q (GH i Hi)) as [T1 V1].
    pose proof (vstable_hn _ _ _ _ V1) as O1.
    pose proof (xleakfree_exec i _ _ q (GH i Hi) (GK i Hi) C) as LF1.
    pose proof (exec_next_mono i (mkQ (n_net s) (host_at s i)) q (proj1 GG)) as Mo.
    pose proof (exec_net_run i (mkQ (n_net s) (host_at s i)) q) as NR.
    destruct (exec i (mkQ (n_net s) (host_at s i)) q) as [[s' res] tr]. cbn [fst snd q_net] in *.
    assert (G' : ginv (q_net s')) by (split; [apply (inv_net _ (x_h _ _ _ T1))|apply (x_inv _ _ _ T1)]).
    constructor; cbn [n_net n_hosts n_pend fst].
    + rewrite upd_length, NR, run_length. exact GL.
    + exact G'.
    + intros j Hj. rewrite upd_length in Hj. destruct (Nat.eq_dec j i) as [->|Nj].
      * rewrite host_at_upd_eq by exact Hi. destruct s'; exact T1.
      * rewrite host_at_upd_neq by exact Nj.
        apply (tinvx_frame j _ (q_net s') (mkQ (n_net s) (host_at s j))); auto.
    + intros j Hj. rewrite upd_length in Hj. destruct (Nat.eq_dec j i) as [->|Nj].
      * rewrite host_at_upd_eq by exact Hi. destruct s'; exact LF1.
      * rewrite host_at_upd_neq by exact Nj. apply (leakfree_net (n_net s)). auto.
    + intros e He. destruct (Nat.eq_dec (p_node e) i) as [E|Ne].
      * rewrite E. apply (proj2 V1); [rewrite <- E; apply in_pend_at; exact He|]. rewrite <- E. apply GN. exact He.
      * unfold hid_of_num. rewrite (proj1 V1) by exact Ne. apply GN. exact He.
  - (* pair creation by host i towards node r *)
    destruct (Nat.ltb_spec i (length (n_hosts s))) as [Hi|Hi]; [|constructor; auto].
    pose proof C as C2. cbn [clean] in C2. cbv zeta in C2. clear C.
    set (qs := mkQ (n_net s) (host_at s i)) in *. set (qid := fresh_id (h_used (host_at s i))) in *.
    pose proof (GH i Hi) as Ti. fold qs in Ti.
    destruct (cmd_epr_keep i qs known r adj qid coins) as [[s1 res] tr] eqn:CE. cbn [fst snd] in *.
    assert (DONE : res = RDone None \/ res <> RDone None) by (destruct res as [[v|]| |]; auto; right; discriminate).
    destruct DONE as [-> | ND].
    + (* success *)
      destruct (addr_free (host_at s i) app a) as [um|] eqn:AF; [|exfalso; apply C2; reflexivity].
      assert (EUA : alookup app (h_units (host_at s i)) = Some um /\ nth_error um a = Some None).
      { unfold addr_free in AF. destruct (alookup app (h_units (host_at s i))) as [um0|]; [|discriminate].
        destruct (nth_error um0 a) as [[p|]|] eqn:EA; inversion AF; subst; auto. }
      destruct EUA as [EU EA].
      destruct (epr_keep_effect i qs known r adj qid coins s1 tr GG)
        as (Nr & Lr & QH & G1 & A1 & A2 & HI & HR & HJ & LL & (n1 & VI) & VR & VF & VJ).
      { intros k hd Hk. destruct (x_keys _ _ _ Ti k hd Hk) as (p & E & _). eauto. }
      { exact CE. }
      subst qs. cbn [q_net q_host] in *.
      assert (MA : map_addr (q_host s1) app a qid = bind_host (host_at s i) app a qid (next_hid (n_net s)) um).
      { unfold map_addr, addr_free. rewrite QH. cbn [with_qlist h_units h_used h_active h_qlist]. rewrite EU, EA. reflexivity. }
      rewrite MA.
      assert (Lr' : r < length (n_hosts s)) by lia.
      set (xh := pred (next_hid (q_net s1))) in *.
      assert (PEr : pend_at [DK (r, rsock, sent_num tr, xh)] r = [xh]).
      { unfold pend_at, p_node, p_hd. cbn [halves filter map fst snd]. rewrite Nat.eqb_refl. reflexivity. }
      assert (PEo : forall j, j <> r -> pend_at [DK (r, rsock, sent_num tr, xh)] j = []).
      { intros j Nj. unfold pend_at, p_node, p_hd. cbn [halves filter map fst snd]. destruct (Nat.eqb_spec r j); [congruence|reflexivity]. }
      constructor; cbn [n_net n_hosts n_pend fst].
      * rewrite upd_length, LL. exact GL.
      * exact G1.
      * intros j Hj. rewrite upd_length in Hj. rewrite pend_at_app.
        destruct (Nat.eq_dec j i) as [->|Nj].
        -- rewrite host_at_upd_eq by exact Hi. rewrite PEo by congruence. rewrite app_nil_r.
           apply (xbind i (pend_at (n_pend s) i) (pend_at (n_pend s) i) (q_net s1) (mkQ (n_net s) (host_at s i)) app um a (next_hid (n_net s)));
             auto; cbn [q_net q_host]; try lia.
           ++ intro y. rewrite HI, in_app_iff. simpl. rewrite (x_own _ _ _ Ti). cbn [q_host].
              split; [intros [[X|X]|[X|[]]]; auto|intros [X|[X|X]]; auto].
           ++ intros p X. apply (inv_qlt _ (x_h _ _ _ Ti)) in X. cbn [q_net] in X. lia.
           ++ intro X. assert (next_hid (n_net s) < next_hid (n_net s)); [|lia].
              apply (hn_lt (n_net s) i); [apply GG|]. apply (x_own _ _ _ Ti). auto.
           ++ apply (x_exnodup _ _ _ Ti).
        -- rewrite host_at_upd_neq by exact Nj. destruct (Nat.eq_dec j r) as [->|Njr].
           ++ rewrite PEr.
              apply (tinvx_frame_add r _ (q_net s1) (mkQ (n_net s) (host_at s r))); auto; cbn [q_net]; lia.
           ++ rewrite PEo by exact Njr. rewrite app_nil_r.
              apply (tinvx_frame j _ (q_net s1) (mkQ (n_net s) (host_at s j))); auto; cbn [q_net]; lia.
      * intros j Hj. rewrite upd_length in Hj. destruct (Nat.eq_dec j i) as [->|Nj].
        -- rewrite host_at_upd_eq by exact Hi. apply (leakfree_bind (n_net s)); auto.
        -- rewrite host_at_upd_neq by exact Nj. apply (leakfree_net (n_net s)). auto.
      * intros e He. apply in_app_iff in He as [He|[He|[]]].
        -- pose proof (GN e He) as L. unfold hid_of_num in *.
           destruct (Nat.eq_dec (p_node e) i) as [E|Ne]; [rewrite E in *; rewrite VI; apply lookup_app_l; exact L|].
           destruct (Nat.eq_dec (p_node e) r) as [E|Ner]; [rewrite E in *; rewrite VR; apply lookup_app_l; exact L|].
           rewrite VJ by auto. exact L.
        -- inversion He; subst e. unfold p_node, p_num, p_hd, hid_of_num. cbn [fst snd]. rewrite VR. apply lookup_app_fresh. exact VF.
    + (* not created -- refused before any temporary existed, or failed afterwards and cleaned up: every host and every node's
         list of held qubits is what it was *)
      destruct (epr_keep_failure_effect i qs known r adj qid coins s1 res tr GG) as (RE & QH & G1 & Mo & LL & VV & NB); auto.
      { intros k hd Hk. destruct (x_keys _ _ _ Ti k hd Hk) as (p & E & Hu). exists p. split; auto.
        intro; subst p. apply (fresh_id_not_in (h_used (host_at s i))). exact Hu. }
      subst res. cbn [fst]. subst qs. cbn [q_net q_host] in *. rewrite QH.
      assert (E : upd (n_hosts s) i (host_at s i) = n_hosts s) by (apply upd_same).
      rewrite E.
      assert (HH : forall j, hn (nth_node (q_net s1) j) = hn (nth_node (n_net s) j)) by (intro j; rewrite !hn_vn, VV; reflexivity).
      constructor; cbn [n_net n_hosts n_pend].
      * rewrite LL. exact GL.
      * exact G1.
      * intros j Hj. unfold host_at. cbn [n_hosts]. fold (host_at s j).
        apply (tinvx_frame j _ (q_net s1) (mkQ (n_net s) (host_at s j))); auto.
      * intros j Hj. unfold host_at. cbn [n_hosts]. fold (host_at s j). apply (leakfree_net (n_net s)). auto.
      * intros e He. unfold hid_of_num. rewrite VV. apply GN. exact He.
  - (* host i polls for a delivered half *)
    destruct (Nat.ltb_spec i (length (n_hosts s))) as [Hi|Hi]; [|constructor; auto].
    destruct (take_pend i sock (n_pend s)) as [[e0 pd']|] eqn:TP; [|constructor; auto].
    cbn [clean] in C. rewrite TP in C.
    destruct (take_pend_spec _ _ _ _ _ TP) as (l1 & l2 & EP & EP' & EN & _).
    pose proof (GH i Hi) as Ti.
    destruct e0 as [e|mn mk mrc].
    2: { (* the head of the deque is a measure-directly record: it is popped; one more physical id is reserved *)
         cbn [fst].
         assert (PA : forall j, pend_at pd' j = pend_at (n_pend s) j).
         { intro j. rewrite EP, EP', !pend_at_app. reflexivity. }
         constructor; cbn [n_net n_hosts n_pend].
         - rewrite upd_length. exact GL.
         - exact GG.
         - intros j Hj. rewrite upd_length in Hj. rewrite PA. destruct (Nat.eq_dec j i) as [->|Nj].
           + rewrite host_at_upd_eq by exact Hi. apply tinvx_keep_used. exact Ti.
           + rewrite host_at_upd_neq by exact Nj. apply (GH j Hj).
         - intros j Hj. rewrite upd_length in Hj. destruct (Nat.eq_dec j i) as [->|Nj].
           + rewrite host_at_upd_eq by exact Hi. apply leakfree_keep_used. apply (GK i Hi).
           + rewrite host_at_upd_neq by exact Nj. apply (GK j Hj).
         - intros e He. apply GN. rewrite EP. rewrite EP' in He. apply in_app_iff in He as [He|He]; apply in_or_app; simpl; auto. }
    cbn [d_node] in EN. cbv zeta.
    set (num := p_num e). set (hd := p_hd e).
    assert (Hent : In (DK e) (n_pend s)) by (rewrite EP; apply in_or_app; right; simpl; auto).
    pose proof (GN _ Hent) as LK. rewrite EN in LK. fold num hd in LK. rewrite LK.
    assert (PI : pend_at (n_pend s) i = pend_at l1 i ++ hd :: pend_at l2 i).
    { rewrite EP, pend_at_app. f_equal. unfold pend_at. cbn [halves filter map]. rewrite EN, Nat.eqb_refl. reflexivity. }
    assert (PI' : pend_at pd' i = pend_at l1 i ++ pend_at l2 i) by (rewrite EP'; apply pend_at_app).
    assert (PJ : forall j, j <> i -> pend_at pd' j = pend_at (n_pend s) j).
    { intros j Nj. rewrite EP, EP', !pend_at_app. f_equal. unfold pend_at. cbn [halves filter map]. rewrite EN.
      destruct (Nat.eqb_spec i j); [congruence|reflexivity]. }
    assert (NK : plookup (PP (fresh_id (h_used (host_at s i)))) (h_qlist (host_at s i)) = None).
    { destruct (plookup _ _) as [y|] eqn:Y; auto. destruct (x_keys _ _ _ Ti _ _ Y) as (p & E1 & E2).
      inversion E1; subst. exfalso. eapply fresh_id_not_in; eauto. }
    rewrite NK. cbn [fst].
    destruct (addr_free (host_at s i) app a) as [um|] eqn:AF; [|exfalso; apply C; reflexivity].
    assert (EUA : alookup app (h_units (host_at s i)) = Some um /\ nth_error um a = Some None).
    { unfold addr_free in AF. destruct (alookup app (h_units (host_at s i))) as [um0|]; [|discriminate].
      destruct (nth_error um0 a) as [[p|]|] eqn:EA; inversion AF; subst; auto. }
    destruct EUA as [EU EA].
    set (qid := fresh_id (h_used (host_at s i))) in *.
    assert (MA : map_addr (with_qlist (host_at s i) (pset (PP qid) hd (h_qlist (host_at s i)))) app a qid =
                 bind_host (host_at s i) app a qid hd um).
    { unfold map_addr, addr_free. cbn [with_qlist h_units h_used h_active h_qlist]. rewrite EU, EA. reflexivity. }
    rewrite MA.
    pose proof (x_exnodup _ _ _ Ti) as NDx. rewrite PI in NDx.
    assert (Hex : In hd (pend_at (n_pend s) i)) by (rewrite PI; apply in_or_app; right; simpl; auto).
    constructor; cbn [n_net n_hosts n_pend].
    + rewrite upd_length. exact GL.
    + exact GG.
    + intros j Hj. rewrite upd_length in Hj. destruct (Nat.eq_dec j i) as [->|Nj].
      * rewrite host_at_upd_eq by exact Hi. rewrite PI'.
        apply (xbind i (pend_at (n_pend s) i) (pend_at l1 i ++ pend_at l2 i) (n_net s) (mkQ (n_net s) (host_at s i)) app um a hd); auto.
        -- apply (hn_lt (n_net s) i); [apply GG|]. apply (x_own _ _ _ Ti). auto.
        -- intro y. rewrite (x_own _ _ _ Ti), PI. cbn [q_host]. rewrite !in_app_iff. simpl.
           split; [intros [X|[X|[X|X]]]; auto|intros [X|[X|[X|X]]]; auto].
        -- intros p X. apply (x_exdisj _ _ _ Ti p hd X Hex).
        -- apply NoDup_remove_2 in NDx. exact NDx.
        -- apply NoDup_remove_1 in NDx. exact NDx.
        -- intros y Hy. rewrite PI. apply in_app_iff in Hy as [Hy|Hy]; apply in_or_app; simpl; auto.
      * rewrite host_at_upd_neq by exact Nj. rewrite PJ by exact Nj. apply (GH j Hj).
    + intros j Hj. rewrite upd_length in Hj. destruct (Nat.eq_dec j i) as [->|Nj].
      * rewrite host_at_upd_eq by exact Hi. apply (leakfree_bind (n_net s)); auto.
      * rewrite host_at_upd_neq by exact Nj. apply (GK j Hj).
    + intros e' He. apply GN. rewrite EP. rewrite EP' in He. apply in_app_iff in He as [He|He]; apply in_or_app; simpl; auto.
  - (* one measure-directly pair by host i towards node r: whether it succeeds or not, every node lists the same qubits *)
    destruct (Nat.ltb_spec i (length (n_hosts s))) as [Hi|Hi]; [|constructor; auto].
    unfold create_m. set (qs := mkQ (n_net s) (host_at s i)). set (qid := fresh_id (h_used (host_at s i))).
    pose proof (GH i Hi) as Ti. fold qs in Ti.
    destruct (cmd_epr_measure i qs known r adj qid bl br c1 c2 coins) as [[[s1 res] tr] o] eqn:CM.
    destruct (epr_measure_effect i qs known r adj qid bl br c1 c2 coins s1 res tr o GG) as (QH & G1 & Mo & LL & VV & _ & _); auto.
    { intros k hd Hk. destruct (x_keys _ _ _ Ti k hd Hk) as (p & E & Hu). exists p. split; auto.
      intro; subst p. apply (fresh_id_not_in (h_used (host_at s i))). exact Hu. }
    subst qs. cbn [q_net q_host] in *.
    assert (HH : forall j, hn (nth_node (q_net s1) j) = hn (nth_node (n_net s) j)) by (intro j; rewrite !hn_vn, VV; reflexivity).
    assert (CORE : forall h' pd', (h' = host_at s i \/ h' = keep_used (host_at s i) qid) ->
                   (forall j, pend_at pd' j = pend_at (n_pend s) j) -> (forall e, In (DK e) pd' -> In (DK e) (n_pend s)) ->
                   ninv (mkN (q_net s1) (upd (n_hosts s) i h') pd')).
    { intros h' pd' Hh PA PI. constructor; cbn [n_net n_hosts n_pend].
      - rewrite upd_length, LL. exact GL.
      - exact G1.
      - intros j Hj. rewrite upd_length in Hj. rewrite PA. destruct (Nat.eq_dec j i) as [->|Nj].
        + rewrite host_at_upd_eq by exact Hi.
          assert (T1 : tinvx i (pend_at (n_pend s) i) (mkQ (q_net s1) (host_at s i))).
          { apply (tinvx_frame i _ (q_net s1) (mkQ (n_net s) (host_at s i))); auto. }
          destruct Hh as [->| ->]; [exact T1|apply tinvx_keep_used; exact T1].
        + rewrite host_at_upd_neq by exact Nj.
          apply (tinvx_frame j _ (q_net s1) (mkQ (n_net s) (host_at s j))); auto.
      - intros j Hj. rewrite upd_length in Hj. destruct (Nat.eq_dec j i) as [->|Nj].
        + rewrite host_at_upd_eq by exact Hi. destruct Hh as [->| ->]; [|apply leakfree_keep_used]; apply (leakfree_net (n_net s)); auto.
        + rewrite host_at_upd_neq by exact Nj. apply (leakfree_net (n_net s)). auto.
      - intros e He. unfold hid_of_num. rewrite VV. apply GN. apply PI. exact He. }
    destruct o as [oo|]; cbn [fst]; rewrite QH.
    + apply CORE; [right; reflexivity| |].
      * intro j. rewrite pend_at_app, pend_at_record, app_nil_r. reflexivity.
      * intros e He. apply in_app_iff in He as [He|[He|[]]]; [exact He|discriminate].
    + apply CORE; [left; reflexivity|reflexivity|auto].
Qed.

Theorem nrun_ninv xs : forall s, ninv s -> cleans s xs -> ninv (nrun s xs).
Proof.
  induction xs as [|x t IH]; intros s I C; simpl; auto. destruct C as [C1 C2]. apply IH; auto. apply nstep_ninv; auto.
Qed.

(* ---- the shared network is a reachable Model-V state ---------------------------------------------------------------------------- *)
Lemma nstep_net_run s x : exists ops, n_net (nstep s x) = run (n_net s) ops.
Proof.
  unfold nstep.
  destruct x as [i q|i app a known r adj rsock coins|i app a sock|i known r adj lsock rsock seq bl br c1 c2 coins]; cbn [nstep_r].
  4: { destruct (Nat.ltb i (length (n_hosts s))); [|exists []; reflexivity]. unfold create_m.
       pose proof (cmd_epr_measure_net_run i (mkQ (n_net s) (host_at s i)) known r adj (fresh_id (h_used (host_at s i))) bl br c1 c2 coins) as NR.
       destruct (cmd_epr_measure _ _ _ _ _ _ _ _ _ _ _) as [[[s1 res] tr] o]. cbn [fst snd q_net] in *.
       destruct o; cbn [fst n_net]; eauto. }
  - destruct (Nat.ltb i (length (n_hosts s))); [|exists []; reflexivity].
    pose proof (exec_net_run i (mkQ (n_net s) (host_at s i)) q) as NR.
    destruct (exec i (mkQ (n_net s) (host_at s i)) q) as [[s' res] tr]. cbn [fst snd q_net] in *. eauto.
  - destruct (Nat.ltb i (length (n_hosts s))); [|exists []; reflexivity].
    pose proof (cmd_epr_keep_net_run i (mkQ (n_net s) (host_at s i)) known r adj (fresh_id (h_used (host_at s i))) coins) as NR.
    destruct (cmd_epr_keep _ _ _ _ _ _ _) as [[s1 res] tr]. cbn [fst snd q_net] in *.
    destruct res as [[v|]| |]; cbn [fst n_net]; eauto.
  - destruct (Nat.ltb i (length (n_hosts s))); [|exists []; reflexivity].
    destruct (take_pend i sock (n_pend s)) as [[[e|mn mk mrc] pd']|]; [|exists []; reflexivity|exists []; reflexivity]. cbv zeta.
    destruct (hid_of_num _ _); [|exists []; reflexivity]. destruct (plookup _ _); exists []; reflexivity.
Qed.

Theorem nrun_reachable caps xs : reachable (n_net (nrun (ninit caps) xs)).
Proof.
  assert (G : forall s, exists ops, n_net (nrun s xs) = run (n_net s) ops).
  { induction xs as [|x t IH]; intros s; simpl; [exists []; reflexivity|].
    destruct (IH (nstep s x)) as [ops2 E2]. destruct (nstep_net_run s x) as [ops1 E1].
    exists (ops1 ++ ops2). rewrite run_app, <- E1. exact E2. }
  destruct (G (ninit caps)) as [ops E]. exists caps, ops. exact E.
Qed.

(* ... reached without the client operation remote_add_register: the NetQASM backend only ever issues create / gate / send /
   measure (the hypothesis of Net/NonEmpty.v) *)
Lemma native_core s o : core_op o -> Forall core_op (tops (snd (native s o))).
Proof. intro H. unfold native. destruct (step (q_net s) o) as [n' r]. simpl. constructor; auto. Qed.

Lemma cmd_new_core i s p : Forall core_op (tops (snd (cmd_new i s p))).
Proof. eapply Forall_impl; [|apply (cmd_new_own i s p)]. intros o Ho; apply (own_op_core i o Ho). Qed.

Lemma exec_core i s q : Forall core_op (tops (snd (exec i s q))).
Proof. eapply Forall_impl; [|apply (exec_own i s q)]. intros o Ho; apply (own_op_core i o Ho). Qed.

Lemma clear_pid_core s p c : Forall core_op (tops (snd (clear_pid s p c))).
Proof.
  unfold clear_pid. destruct (virt_of (q_host s) p) as [hd|]; [|constructor].
  pose proof (native_core s (OMeas hd false c) I) as N. destruct (native s (OMeas hd false c)) as [[s1 r] tr]. simpl in N.
  destruct r; exact N.
Qed.
Lemma epr_cleanup_core ps : forall s coins, Forall core_op (tops (snd (epr_cleanup s ps coins))).
Proof.
  induction ps as [|p t IH]; intros s coins; cbn [epr_cleanup]; [constructor|].
  destruct (virt_of (q_host s) p); [|apply IH].
  pose proof (clear_pid_core s p (hd false coins)) as N.
  destruct (clear_pid s p (hd false coins)) as [[s1 ok] tr]. cbn [fst snd] in N. destruct ok; [|exact N].
  pose proof (IH s1 (tl coins)) as N2. destruct (epr_cleanup s1 t (tl coins)) as [s2 tr2]. cbn [fst snd] in *.
  unfold tops in *. rewrite map_app. apply Forall_app; auto.
Qed.
Lemma epr_fail_core s qid coins tr : Forall core_op (tops tr) -> Forall core_op (tops (snd (epr_fail s qid coins tr))).
Proof.
  intro N. unfold epr_fail. pose proof (epr_cleanup_core [PP qid; PM qid] s coins) as C.
  destruct (epr_cleanup s [PP qid; PM qid] coins) as [sc tc]. cbn [fst snd] in *.
  unfold tops in *. rewrite map_app. apply Forall_app; auto.
Qed.

Lemma cmd_epr_keep_core i s known r adj qid coins : Forall core_op (tops (snd (cmd_epr_keep i s known r adj qid coins))).
Proof.
  unfold cmd_epr_keep. destruct (negb (epr_gate known i r adj)); [constructor|].
  pose proof (cmd_new_core i s (PP qid)) as C1.
  destruct (cmd_new i s (PP qid)) as [[s1 ok1] t1]. simpl in C1. destruct (negb ok1); [apply epr_fail_core; exact C1|].
  pose proof (cmd_new_core i s1 (PM qid)) as C2.
  destruct (cmd_new i s1 (PM qid)) as [[s2 ok2] t2]. simpl in C2.
  assert (C12 : Forall core_op (tops (t1 ++ t2))) by (unfold tops in *; rewrite map_app; apply Forall_app; auto).
  destruct (negb ok2); [apply epr_fail_core; exact C12|].
  destruct (virt_of (q_host s2) (PP qid)) as [h1|]; [|apply epr_fail_core; exact C12].
  destruct (virt_of (q_host s2) (PM qid)) as [h2|]; [|apply epr_fail_core; exact C12].
  pose proof (native_core s2 (OGate1 h1 NH) I) as C3. destruct (native s2 (OGate1 h1 NH)) as [[s3 r3] t3]. simpl in C3.
  pose proof (native_core s3 (OGate2 h1 h2 NCnot) I) as C4. destruct (native s3 (OGate2 h1 h2 NCnot)) as [[s4 r4] t4]. simpl in C4.
  pose proof (native_core s4 (OSend h2 r) I) as C5. destruct (native s4 (OSend h2 r)) as [[s5 r5] t5]. simpl in C5.
  assert (C15 : Forall core_op (tops (t1 ++ t2 ++ t3 ++ t4 ++ t5))).
  { unfold tops in *. rewrite !map_app. repeat (apply Forall_app; split); auto. }
  destruct r5; try (apply epr_fail_core; exact C15). exact C15.
Qed.

Lemma measure_epr_qubit_core s p b c : Forall core_op (tops (snd (measure_epr_qubit s p b c))).
Proof.
  unfold measure_epr_qubit. destruct (virt_of (q_host s) p) as [hd|]; [|constructor].
  assert (B : forall X : qst * bool * ntrace, Forall core_op (tops (snd X)) ->
              Forall core_op (tops (snd (let '(s1, bad, t1) := X in
                 if bad then (s1, @None nat, t1)
                 else let '(s2, r, t2) := native s1 (OMeas hd false c) in
                      match r with
                      | Ok v => (mkQ (q_net s2) (with_qlist (q_host s2) (premove p (h_qlist (q_host s2)))), Some v, t1 ++ t2)
                      | _ => (s2, None, t1 ++ t2)
                      end)))).
  { intros [[s1 bad] t1] N1. cbn [fst snd] in N1. destruct bad; [exact N1|].
    pose proof (native_core s1 (OMeas hd false c) I) as N2. destruct (native s1 (OMeas hd false c)) as [[s2 r] t2]. cbn [fst snd] in N2.
    assert (N12 : Forall core_op (tops (t1 ++ t2))) by (unfold tops in *; rewrite map_app; apply Forall_app; auto).
    destruct r; exact N12. }
  apply B. destruct (basis_g1 b) as [g|]; [|constructor].
  pose proof (native_core s (OGate1 hd g) I) as N. destruct (native s (OGate1 hd g)) as [[s' r] t]. exact N.
Qed.

Lemma cmd_epr_measure_core i s known r adj qid bl br c1 c2 coins :
  Forall core_op (tops (snd (fst (cmd_epr_measure i s known r adj qid bl br c1 c2 coins)))).
Proof.
  unfold cmd_epr_measure, epr_fail_m. destruct (negb (epr_gate known i r adj)); [constructor|].
  pose proof (cmd_new_core i s (PP qid)) as C1.
  destruct (cmd_new i s (PP qid)) as [[s1 ok1] t1]. simpl in C1. destruct (negb ok1); [apply epr_fail_core; exact C1|].
  pose proof (cmd_new_core i s1 (PM qid)) as C2.
  destruct (cmd_new i s1 (PM qid)) as [[s2 ok2] t2]. simpl in C2.
  assert (C12 : Forall core_op (tops (t1 ++ t2))) by (unfold tops in *; rewrite map_app; apply Forall_app; auto).
  destruct (negb ok2); [apply epr_fail_core; exact C12|].
  destruct (virt_of (q_host s2) (PP qid)) as [h1|]; [|apply epr_fail_core; exact C12].
  destruct (virt_of (q_host s2) (PM qid)) as [h2|]; [|apply epr_fail_core; exact C12].
  pose proof (native_core s2 (OGate1 h1 NH) I) as C3. destruct (native s2 (OGate1 h1 NH)) as [[s3 r3] t3]. simpl in C3.
  pose proof (native_core s3 (OGate2 h1 h2 NCnot) I) as C4. destruct (native s3 (OGate2 h1 h2 NCnot)) as [[s4 r4] t4]. simpl in C4.
  pose proof (measure_epr_qubit_core s4 (PP qid) bl c1) as C5. destruct (measure_epr_qubit s4 (PP qid) bl c1) as [[s5 o1] t5]. simpl in C5.
  assert (C15 : Forall core_op (tops (t1 ++ t2 ++ t3 ++ t4 ++ t5))).
  { unfold tops in *. rewrite !map_app. repeat (apply Forall_app; split); auto. }
  destruct o1 as [v1|]; [|apply epr_fail_core; exact C15].
  pose proof (measure_epr_qubit_core s5 (PM qid) br c2) as C6. destruct (measure_epr_qubit s5 (PM qid) br c2) as [[s6 o2] t6]. simpl in C6.
  assert (C16 : Forall core_op (tops (t1 ++ t2 ++ t3 ++ t4 ++ t5 ++ t6))).
  { unfold tops in *. rewrite !map_app. repeat (apply Forall_app; split); auto. }
  destruct o2 as [v2|]; [exact C16|apply epr_fail_core; exact C16].
Qed.

Lemma nstep_net_run_core s x : exists ops, Forall core_op ops /\ n_net (nstep s x) = run (n_net s) ops.
Proof.
  unfold nstep.
  destruct x as [i q|i app a known r adj rsock coins|i app a sock|i known r adj lsock rsock seq bl br c1 c2 coins]; cbn [nstep_r].
  4: { destruct (Nat.ltb i (length (n_hosts s))); [|exists []; split; [constructor|reflexivity]]. unfold create_m.
       pose proof (cmd_epr_measure_net_run i (mkQ (n_net s) (host_at s i)) known r adj (fresh_id (h_used (host_at s i))) bl br c1 c2 coins) as NR.
       pose proof (cmd_epr_measure_core i (mkQ (n_net s) (host_at s i)) known r adj (fresh_id (h_used (host_at s i))) bl br c1 c2 coins) as NC.
       destruct (cmd_epr_measure _ _ _ _ _ _ _ _ _ _ _) as [[[s1 res] tr] o]. cbn [fst snd q_net] in *.
       destruct o; cbn [fst n_net]; eauto. }
  - destruct (Nat.ltb i (length (n_hosts s))); [|exists []; split; [constructor|reflexivity]].
    pose proof (exec_net_run i (mkQ (n_net s) (host_at s i)) q) as NR.
    pose proof (exec_core i (mkQ (n_net s) (host_at s i)) q) as NC.
    destruct (exec i (mkQ (n_net s) (host_at s i)) q) as [[s' res] tr]. cbn [fst snd q_net] in *. eauto.
  - destruct (Nat.ltb i (length (n_hosts s))); [|exists []; split; [constructor|reflexivity]].
    pose proof (cmd_epr_keep_net_run i (mkQ (n_net s) (host_at s i)) known r adj (fresh_id (h_used (host_at s i))) coins) as NR.
    pose proof (cmd_epr_keep_core i (mkQ (n_net s) (host_at s i)) known r adj (fresh_id (h_used (host_at s i))) coins) as NC.
    destruct (cmd_epr_keep _ _ _ _ _ _ _) as [[s1 res] tr]. cbn [fst snd q_net] in *.
    destruct res as [[v|]| |]; cbn [fst n_net]; eauto.
  - destruct (Nat.ltb i (length (n_hosts s))); [|exists []; split; [constructor|reflexivity]].
    destruct (take_pend i sock (n_pend s)) as [[[e|mn mk mrc] pd']|];
      [|exists []; split; [constructor|reflexivity]|exists []; split; [constructor|reflexivity]]. cbv zeta.
    destruct (hid_of_num _ _); [|exists []; split; [constructor|reflexivity]].
    destruct (plookup _ _); exists []; split; try constructor; reflexivity.
Qed.

Theorem nrun_reachable_core caps xs : reachable_core (n_net (nrun (ninit caps) xs)).
Proof.
  assert (G : forall s, exists ops, Forall core_op ops /\ n_net (nrun s xs) = run (n_net s) ops).
  { induction xs as [|x t IH]; intros s; simpl; [exists []; split; [constructor|reflexivity]|].
    destruct (IH (nstep s x)) as [ops2 [F2 E2]]. destruct (nstep_net_run_core s x) as [ops1 [F1 E1]].
    exists (ops1 ++ ops2). split; [apply Forall_app; auto|]. rewrite run_app, <- E1. exact E2. }
  destruct (G (ninit caps)) as [ops [F E]]. exists caps, ops. split; auto.
Qed.

Lemma nrun_hosts_length xs : forall s, length (n_hosts (nrun s xs)) = length (n_hosts s).
Proof.
  induction xs as [|x t IH]; intros s0; simpl; auto. rewrite IH. unfold nstep.
  destruct x as [i q|i app a known r adj rsock coins|i app a sock|i known r adj lsock rsock seq bl br c1 c2 coins]; cbn [nstep_r].
  4: { destruct (Nat.ltb i (length (n_hosts s0))); auto. unfold create_m.
       destruct (cmd_epr_measure _ _ _ _ _ _ _ _ _ _ _) as [[[s1 res] tr] o]. destruct o; cbn [fst n_hosts]; apply upd_length. }
  - destruct (Nat.ltb i (length (n_hosts s0))); auto. destruct (exec _ _ _) as [[s' res] tr]. cbn [fst n_hosts]. apply upd_length.
  - destruct (Nat.ltb i (length (n_hosts s0))); auto. destruct (cmd_epr_keep _ _ _ _ _ _ _) as [[s1 res] tr].
    destruct res as [[v|]| |]; cbn [fst n_hosts]; apply upd_length.
  - destruct (Nat.ltb i (length (n_hosts s0))); auto. destruct (take_pend _ _ _) as [[[e|mn mk mrc] pd']|]; auto.
    2: { cbn [fst n_hosts]. apply upd_length. }
    cbv zeta. destruct (hid_of_num _ _); auto. destruct (plookup _ _); cbn [fst n_hosts]; auto. apply upd_length.
Qed.

(* ---- the theorems ------------------------------------------------------------------------------------------------------------------ *)
Lemma hn_nil_virt nd : hn nd = [] -> virt nd = [].
Proof. unfold hn. destruct (virt nd); [auto|discriminate]. Qed.

(* net_stop_leaves_nothing: N hosts over one network; any list of host-level actions (instructions incl. failing ones,
   allocations, frees, gates -- also between halves simulated on other nodes --, measurements, pair creations towards other
   hosts -- create-and-keep as well as measure-directly ones --, receipts, stops, any number of application generations) that
   is `clean` (see the head of the file): once every application on every host has been stopped and every delivered HALF was
   claimed, NO node holds a qubit, simulates a qubit or keeps a register.  Outcome records of measure-directly pairs that
   nobody polled for may still be queued: they hold no qubit (`halves` skips them). *)
Theorem net_stop_leaves_nothing caps xs :
  let s := nrun (ninit caps) xs in
  cleans (ninit caps) xs ->
  (forall i, i < length caps -> h_units (host_at s i) = []) ->
  halves (n_pend s) = [] ->
  forall j, virt (nth_node (n_net s) j) = [] /\ sims (nth_node (n_net s) j) = [] /\
            regs (nth_node (n_net s) j) = [] /\ numRegs (nth_node (n_net s) j) = 0.
Proof.
  intros s C U P.
  pose proof (nrun_ninv xs (ninit caps) (init_ninv caps) C) as I. fold s in I.
  assert (LN : length (n_hosts s) = length caps).
  { unfold s. rewrite nrun_hosts_length. simpl. apply map_length. }
  assert (V0 : forall j, virt (nth_node (n_net s) j) = []).
  { intro j. destruct (Nat.ltb_spec j (length (n_hosts s))) as [Hj|Hj].
    - apply hn_nil_virt.
      destruct (xidle j _ _ (g_host s I j Hj) (g_leak s I j Hj)) as [_ X]; [apply U; lia|].
      cbn [q_net] in X. unfold pend_at in X. rewrite P in X.
      destruct (hn (nth_node (n_net s) j)) as [|y t]; auto. destruct (X y); simpl; auto.
    - rewrite nth_node_overflow; [reflexivity|]. rewrite <- (g_len s I). exact Hj. }
  intro j. destruct (nothing_held_nothing_left _ (nrun_reachable_core caps xs) V0 j) as (A & B & D). auto.
Qed.

(* halves handed to another node are not destroyed by the creator's teardown: NOTHING host i executes -- a stop of its
   application, frees, measurements, failing instructions -- touches a qubit held by another node *)
Theorem instr_keeps_other_nodes s i q : ninv s -> i < length (n_hosts s) ->
  forall j, j <> i -> hn (nth_node (n_net (nstep s (AInstr i q))) j) = hn (nth_node (n_net s) j).
Proof.
  intros I Hi j Nj. unfold nstep. cbn [nstep_r]. destruct (Nat.ltb_spec i (length (n_hosts s))); [|lia].
  pose proof (xexec i _ _ q (g_host s I i Hi)) as [_ O1].
  destruct (exec i (mkQ (n_net s) (host_at s i)) q) as [[s' res] tr]. cbn [fst n_net q_net] in *. apply O1. exact Nj.
Qed.

Corollary stop_keeps_peer_halves caps xs i app coins :
  let s := nrun (ninit caps) xs in
  cleans (ninit caps) xs -> i < length caps ->
  forall j, j <> i -> held (n_net (nstep s (AInstr i (QStopApp app coins)))) j = held (n_net s) j /\
                      hn (nth_node (n_net (nstep s (AInstr i (QStopApp app coins)))) j) = hn (nth_node (n_net s) j).
Proof.
  intros s C Hi j Nj.
  pose proof (nrun_ninv xs (ninit caps) (init_ninv caps) C) as I. fold s in I.
  assert (Hi' : i < length (n_hosts s)).
  { unfold s. rewrite nrun_hosts_length. simpl. rewrite map_length. exact Hi. }
  pose proof (instr_keeps_other_nodes s i (QStopApp app coins) I Hi' j Nj) as E.
  split; [|exact E]. rewrite !held_hn, E. reflexivity.
Qed.

(* in every reachable clean state node j holds exactly the qubits of host j's qubitList and the unclaimed halves *)
Theorem node_population caps xs j :
  let s := nrun (ninit caps) xs in
  cleans (ninit caps) xs -> j < length (n_hosts s) ->
  held (n_net s) j = length (h_qlist (host_at s j)) + length (pend_at (n_pend s) j).
Proof.
  intros s C Hj.
  pose proof (nrun_ninv xs (ninit caps) (init_ninv caps) C) as I. fold s in I.
  pose proof (g_host s I j Hj) as T.
  pose proof (node_hids_nodup (n_net s) j (proj1 (g_ginv s I))) as ND. fold (hn (nth_node (n_net s) j)) in ND.
  rewrite held_hn.
  set (ql := h_qlist (host_at s j)) in *. set (ex := pend_at (n_pend s) j) in *.
  assert (NV : NoDup (map snd ql)).
  { pose proof (x_nodup _ _ _ T) as NK. pose proof (inv_qinj _ (x_h _ _ _ T)) as QI. cbn [q_host] in NK, QI. fold ql in NK, QI.
    clear - NK QI. induction ql as [|[k v] t IH]; simpl; constructor.
    - intro Hin. apply in_map_iff in Hin as ([k' v'] & E & Hin). simpl in E. subst v'. inversion NK; subst.
      assert (P1 : plookup k ((k, v) :: t) = Some v) by (simpl; destruct (pid_eqb_spec k k); congruence).
      assert (Nk : k' <> k). { intro; subst. apply H1. change k with (fst (k, v)). apply in_map. exact Hin. }
      assert (P2 : plookup k' ((k, v) :: t) = Some v).
      { simpl. destruct (pid_eqb_spec k k'); [congruence|]. clear - Hin H2. induction t as [|[a b] t IH]; simpl in *; [tauto|].
        inversion H2; subst. destruct (pid_eqb_spec a k').
        - destruct Hin as [E|Hin]; [congruence|]. subst. exfalso. apply H1. change k' with (fst (k', v)). apply in_map. exact Hin.
        - destruct Hin as [E|Hin]; [congruence|]. apply IH; auto. }
      apply Nk. symmetry. apply (QI _ _ _ P1 P2).
    - inversion NK; subst. apply IH; auto. intros p p' hd A B. apply (QI p p' hd); simpl.
      + destruct (pid_eqb_spec k p); auto. subst. exfalso. apply H1. eapply plookup_in_keys; eauto.
      + destruct (pid_eqb_spec k p'); auto. subst. exfalso. apply H1. eapply plookup_in_keys; eauto. }
  assert (IN1 : forall p hd, plookup p ql = Some hd -> In hd (map snd ql)).
  { clear. induction ql as [|[k v] t IH]; simpl; [discriminate|]. intros p hd. destruct (pid_eqb k p); [intro H; inversion H; auto|eauto]. }
  assert (IN2 : forall hd, In hd (map snd ql) -> exists p, plookup p ql = Some hd).
  { pose proof (x_nodup _ _ _ T) as NK. cbn [q_host] in NK. fold ql in NK. clear - NK.
    induction ql as [|[k v] t IH]; simpl; [tauto|]. inversion NK; subst. intros hd [E|Hin].
    - subst. exists k. destruct (pid_eqb_spec k k); congruence.
    - destruct (IH H2 hd Hin) as (p & Hp). exists p. destruct (pid_eqb_spec k p); auto. subst. exfalso. apply H1.
      eapply plookup_in_keys; eauto. }
  assert (NA : NoDup (map snd ql ++ ex)).
  { apply NoDup_app_iff. split; [exact NV|]. split; [apply (x_exnodup _ _ _ T)|].
    intros y H1 H2. destruct (IN2 y H1) as (p & Hp). apply (x_exdisj _ _ _ T p y Hp H2). }
  assert (E1 : incl (hn (nth_node (n_net s) j)) (map snd ql ++ ex)).
  { intros y Hy. apply (x_own _ _ _ T) in Hy as [(p & Hp)|Hy]; apply in_or_app; [left; eapply IN1; eauto|right; exact Hy]. }
  assert (E2 : incl (map snd ql ++ ex) (hn (nth_node (n_net s) j))).
  { intros y Hy. apply (x_own _ _ _ T). apply in_app_iff in Hy as [Hy|Hy]; [left; apply IN2; exact Hy|right; exact Hy]. }
  pose proof (NoDup_incl_length ND E1) as L1. pose proof (NoDup_incl_length NA E2) as L2.
  rewrite app_length, map_length in L1, L2. lia.
Qed.

(* an unclaimed half is found again by its number: in every reachable clean state, for every entry of a receive deque, the
   lookup the code performs at poll time (first virtual qubit of the node with the stored number) returns the very qubit
   that was delivered; the node still holds it and no qubitList of its host refers to it *)
Theorem pending_lookup_faithful caps xs :
  let s := nrun (ninit caps) xs in
  cleans (ninit caps) xs ->
  forall nd sk num hd, In (DK (nd, sk, num, hd)) (n_pend s) ->
    hid_of_num (nth_node (n_net s) nd) num = Some hd /\ In hd (hn (nth_node (n_net s) nd)) /\
    forall p, plookup p (h_qlist (host_at s nd)) <> Some hd.
Proof.
  intros s C nd sk num hd Hin.
  pose proof (nrun_ninv xs (ninit caps) (init_ninv caps) C) as I. fold s in I.
  pose proof (g_num s I _ Hin) as L. unfold p_node, p_num, p_hd in L. cbn [fst snd] in L.
  assert (H1 : In hd (hn (nth_node (n_net s) nd))).
  { rewrite hn_vn. eapply lookup_in. exact L. }
  split; [exact L|]. split; [exact H1|].
  assert (Hnd : nd < length (n_hosts s)).
  { rewrite (g_len s I). destruct (Nat.ltb_spec nd (length (nodes (n_net s)))); auto.
    rewrite nth_node_overflow in H1 by auto. simpl in H1. contradiction. }
  intros p Hp. apply (x_exdisj _ _ _ (g_host s I nd Hnd) p hd Hp).
  apply (in_pend_at _ (nd, sk, num, hd) Hin).
Qed.

(* failed_creation_restores -- the positive statement the former finding C11:epr-temporaries refuted.  In every state the
   invariant describes (in particular after every clean history, nrun_ninv), a pair creation that does not succeed -- refused by
   the checks, by the creator's own node at the first or the second cmd_new, or by the receiving node at the hand-over --
   answers an error and leaves behind exactly what was there: every host's bookkeeping (unit modules, used physical ids,
   qubitList, active applications; the creator's included), the receive deques, and for EVERY node the list of qubits it holds
   (the virtualQubit records themselves: handle, number, simulating node, simulated number -- in order), the list of qubits it
   simulates, its registers (number, capacity, size, tableau) and its register count.  Only two counters that are never
   re-used have advanced: the handle counter and the creator node's register-number counter. *)
Theorem failed_creation_restores s i app a known r adj rsock coins :
  ninv s -> i < length (n_hosts s) ->
  snd (nstep_r s (ACreate i app a known r adj rsock coins)) <> RDone None ->
  let s' := nstep s (ACreate i app a known r adj rsock coins) in
  snd (nstep_r s (ACreate i app a known r adj rsock coins)) = RErr /\
  n_hosts s' = n_hosts s /\ n_pend s' = n_pend s /\
  forall j, virt (nth_node (n_net s') j) = virt (nth_node (n_net s) j) /\
            sims (nth_node (n_net s') j) = sims (nth_node (n_net s) j) /\
            regs (nth_node (n_net s') j) = regs (nth_node (n_net s) j) /\
            numRegs (nth_node (n_net s') j) = numRegs (nth_node (n_net s) j) /\
            held (n_net s') j = held (n_net s) j.
Proof.
  intros I Hi. unfold nstep. cbn [nstep_r]. destruct (Nat.ltb_spec i (length (n_hosts s))) as [_|]; [|lia].
  pose proof (g_host s I i Hi) as Ti.
  destruct (cmd_epr_keep i (mkQ (n_net s) (host_at s i)) known r adj (fresh_id (h_used (host_at s i))) coins) as [[s1 res] tr] eqn:CE.
  assert (SR : forall (A : Type) (x y : A), snd (match res with RDone None => (x, res) | _ => (y, res) end) = res)
    by (intros; destruct res as [[v|]| |]; reflexivity).
  rewrite SR. intro ND.
  assert (KK : forall k hd, plookup k (h_qlist (host_at s i)) = Some hd -> exists p, k = PP p /\ p <> fresh_id (h_used (host_at s i))).
  { intros k hd Hk. destruct (x_keys _ _ _ Ti k hd Hk) as (p & E & Hu). exists p. split; auto.
    intro; subst p. apply (fresh_id_not_in (h_used (host_at s i))). exact Hu. }
  destruct (epr_keep_failure_effect i (mkQ (n_net s) (host_at s i)) known r adj _ coins s1 res tr (g_ginv s I) KK CE ND)
    as (RE & QH & G1 & Mo & LL & VV & NB).
  subst res. cbn [fst snd n_net n_hosts n_pend q_net q_host] in *. rewrite QH.
  split; [reflexivity|]. split; [apply upd_same|]. split; [reflexivity|].
  destruct NB as (k & _ & NB). intro j.
  destruct (bumped_same_fields (n_net s) (q_net s1) i k NB j) as (A & B & C & D & _).
  split; [exact A|]. split; [exact B|]. split; [exact C|]. split; [exact D|]. rewrite !held_hn, !hn_vn, VV. reflexivity.
Qed.

(* the same for one host, at the level of cmd_epr itself: whatever the creator held (qubitList, used ids, unit modules) and
   whatever any node held is unchanged, the host's invariant still holds over the new network *)
Theorem failed_creation_leaves_creator i ex s known r adj coins :
  tinvx i ex s ->
  let c := cmd_epr_keep i s known r adj (fresh_id (h_used (q_host s))) coins in
  snd (fst c) <> RDone None ->
  snd (fst c) = RErr /\ q_host (fst (fst c)) = q_host s /\ tinvx i ex (fst (fst c)) /\
  forall j, virt (nth_node (q_net (fst (fst c))) j) = virt (nth_node (q_net s) j) /\
            sims (nth_node (q_net (fst (fst c))) j) = sims (nth_node (q_net s) j) /\
            regs (nth_node (q_net (fst (fst c))) j) = regs (nth_node (q_net s) j) /\
            numRegs (nth_node (q_net (fst (fst c))) j) = numRegs (nth_node (q_net s) j) /\
            held (q_net (fst (fst c))) j = held (q_net s) j.
Proof.
  intros T c ND. unfold c in *. clear c.
  destruct (cmd_epr_keep i s known r adj (fresh_id (h_used (q_host s))) coins) as [[s1 res] tr] eqn:CE. cbn [fst snd] in *.
  assert (GG : ginv (q_net s)) by (split; [apply (inv_net _ (x_h _ _ _ T))|apply (x_inv _ _ _ T)]).
  assert (KK : forall k hd, plookup k (h_qlist (q_host s)) = Some hd -> exists p, k = PP p /\ p <> fresh_id (h_used (q_host s))).
  { intros k hd Hk. destruct (x_keys _ _ _ T k hd Hk) as (p & E & Hu). exists p. split; auto.
    intro; subst p. apply (fresh_id_not_in (h_used (q_host s))). exact Hu. }
  destruct (epr_keep_failure_effect i s known r adj _ coins s1 res tr GG KK CE ND) as (RE & QH & G1 & Mo & LL & VV & NB).
  assert (HH : forall j, hn (nth_node (q_net s1) j) = hn (nth_node (q_net s) j)) by (intro j; rewrite !hn_vn, VV; reflexivity).
  split; [exact RE|]. split; [exact QH|]. split.
  - destruct s1 as [n1 h1]. cbn [q_net q_host] in *. subst h1. destruct s as [n0 h0]. cbn [q_net q_host] in *.
    apply (tinvx_frame i ex n1 (mkQ n0 h0)); auto.
  - destruct NB as (k & _ & NB). intro j.
    destruct (bumped_same_fields (q_net s) (q_net s1) i k NB j) as (A & B & C & D & _).
    split; [exact A|]. split; [exact B|]. split; [exact C|]. split; [exact D|]. rewrite !held_hn, HH. reflexivity.
Qed.

(* ---- `cleans` is decidable (for the examples) ---------------------------------------------------------------------------------------- *)
Definition is_done_none (r : qres) : bool := match r with RDone None => true | _ => false end.
Definition has_new_ok (i : nat) (tr : ntrace) : bool :=
  existsb (fun e => match e with (ONew n, Ok _) => Nat.eqb n i | _ => false end) tr.
Definition addr_freeb (h : host) (app a : nat) : bool := match addr_free h app a with Some _ => true | None => false end.
Definition cleanb (s : nst) (x : nact) : bool :=
  match x with
  | AInstr i q => fresh_initb (mkQ (n_net s) (host_at s i)) q
  | ACreate i app a known r adj rsock coins =>
      let c := cmd_epr_keep i (mkQ (n_net s) (host_at s i)) known r adj (fresh_id (h_used (host_at s i))) coins in
      if is_done_none (snd (fst c)) then addr_freeb (host_at s i) app a else true
  | ARecv i app a sock =>
      match take_pend i sock (n_pend s) with Some (DK _, _) => addr_freeb (host_at s i) app a | _ => true end
  | ACreateM _ _ _ _ _ _ _ _ _ _ _ _ => true
  end.
Fixpoint cleansb (s : nst) (xs : list nact) : bool :=
  match xs with [] => true | x :: t => cleanb s x && cleansb (nstep s x) t end.

Lemma cleanb_ok s x : cleanb s x = true -> clean s x.
Proof.
  destruct x as [i q|i app a known r adj rsock coins|i app a sock|i known r adj lsock rsock seq bl br c1 c2 coins]; cbn [cleanb clean]; [| | |auto].
  - intros H app m E. subst q. cbn [fresh_initb q_host] in H. cbn [q_host].
    destruct (alookup app (h_units (host_at s i))); [discriminate|reflexivity].
  - cbv zeta. unfold addr_freeb.
    destruct (cmd_epr_keep _ _ _ _ _ _ _) as [[s1 res] tr]. cbn [fst snd].
    destruct (is_done_none res) eqn:D.
    + intros H E. destruct (addr_free (host_at s i) app a); [discriminate|discriminate].
    + intros _ E. subst res. discriminate.
  - unfold addr_freeb. destruct (take_pend i sock (n_pend s)) as [[[e|mn mk mrc] pd']|]; auto.
    intros H E. rewrite E in H. discriminate.
Qed.
Lemma cleansb_ok xs : forall s, cleansb s xs = true -> cleans s xs.
Proof.
  induction xs as [|x t IH]; intros s H; [exact I|]. cbn [cleansb] in H. apply andb_prop in H as [H1 H2].
  split; [apply cleanb_ok; exact H1|apply IH; exact H2].
Qed.
