"""C11 — freeing qubits and stopping an application releases everything it held."""
import logging

import common
import net_sync as N
import qasm_gen as G
import qasm_run as QR
import qasm_sync as Q
from props import c09

PRE = [("set", "Q0", 0), ("set", "Q1", 1), ("set", "Q2", 2), ("set", "C2", 1)]


def scenarios():
    out = []
    # D16: node with room for one qubit; the second qalloc is refused; then stop
    out.append(("refused-qalloc-then-stop", [(1, 10)], [
        (("init", 0, 2), []),
        (("sub", 0, PRE + [("qalloc", "Q1"), ("init", "Q1"), ("qalloc", "Q0")]), [0, 0]),
        (("stop", 0), [0, 0]),
        (("init", 1, 2), []),
        (("sub", 1, PRE + [("qalloc", "Q0"), ("init", "Q0"), ("g1", "x", "Q0"), ("meas", "Q0", "M0"), ("ret_reg", "M0")]), [0, 0]),
        (("stop", 1), [1, 1])]))
    # register limit instead of qubit limit
    out.append(("refused-qalloc-register-limit", [(3, 1)], [
        (("init", 0, 3), []),
        (("sub", 0, PRE + [("qalloc", "Q0"), ("qalloc", "Q1"), ("g1", "h", "Q0")]), [0]),
        (("stop", 0), [1, 1]),
        (("init", 1, 1), []),
        (("sub", 1, PRE + [("qalloc", "Q0"), ("g1", "h", "Q0")]), [0]),
        (("stop", 1), [1, 1])]))
    # three generations at full capacity, entangled qubits left to the stop, failed subroutines in between
    gens = []
    for g in range(3):
        gens += [(("init", g, 3), []),
                 (("sub", g, PRE + [("qalloc", "Q0"), ("init", "Q0"), ("qalloc", "Q1"), ("init", "Q1"), ("qalloc", "Q2"), ("init", "Q2"),
                                    ("g1", "h", "Q0"), ("g2", "cnot", "Q0", "Q1"), ("g2", "cnot", "Q1", "Q2")]), [0] * 4),
                 (("sub", g, PRE + [("g1", "t", "Q0"), ("g1", "x", "Q1")]), [0]),
                 (("sub", g, PRE + [("qfree", "Q1"), ("g1", "x", "Q1")]), [g % 2]),
                 (("stop", g), [1, 0, 1])]
    out.append(("three-full-generations", [(3, 3)], gens))
    return out


def appid_reuse():
    return ("appid-reuse", [(2, 10)], [
        (("init", 0, 2), []),
        (("sub", 0, PRE + [("qalloc", "Q0"), ("init", "Q0")]), [0]),
        (("stop", 0), [0, 0]),
        (("init", 0, 2), []),
        (("sub", 0, PRE + [("qalloc", "Q0"), ("init", "Q0"), ("qalloc", "Q1"), ("init", "Q1")]), [0, 0]),
        (("stop", 0), [0, 0, 0])])


def failed_pair_leak(env, rng, thorough):
    """pair creations that cannot be completed (harness/qasm_eprfail.py): the receiver's node is full so the hand-over is refused
    after both temporary qubits exist; the creator's node (qubit or register limit) has room for one more qubit only, or for none;
    a measure-directly request that fails after both exist; with and without other qubits held by the creator before and after;
    plus requests that succeed.  Oracle on the implementation alone (qasm_eprfail.judge): the failing request answers an error,
    and AFTER THE FAILED REQUEST as well as AFTER StopApp every node's (held, simulated, registers, register counter) equal those
    before the request / before the application.  Returns (runs, [(run, problems)])"""
    import qasm_eprfail as F
    runs, found = [], []
    scs = F.fixed_scenarios() + [F.random_scenario(rng) for _ in range(160 if thorough else 30)]
    for sc in scs:
        r = F.run(env, sc)
        runs.append(r)
        probs = F.judge(r)
        if probs:
            found.append((r, probs))
    return runs, found


def node_counts(net):
    return [(len(n.virtQubits), len(n.simQubits), len(n.registers), n.numRegs) for n in net.nodes]


def random_epr_plan(rng, thorough):
    """several application generations on the same 2-3 nodes; per generation every node runs a list of steps: local allocations,
    gates, measurements and frees (not necessarily of the newest qubit, so that ids and numbers have holes), pair requests
    (create-and-keep) in one global order, gates between local qubits and halves and between halves of pairs made elsewhere (the
    repeater case: both qubits simulated at two other nodes); then the applications stop in a random order.
    Qubit names: ("L", k) the k-th local allocation of the node, ("H", request index, i) the i-th half of a request"""
    n_nodes = rng.choice([2, 3, 3])
    gens = []
    for g in range(rng.randrange(2, 4 if thorough else 3) + 1):
        reqs = []
        live = [[] for _ in range(n_nodes)]
        steps = [[] for _ in range(n_nodes)]
        nloc = [0] * n_nodes

        def local_steps(node, k):
            for _ in range(k):
                kind = rng.choice(["alloc", "alloc", "free", "free", "cnot", "cnot", "cphase", "h", "meas"])
                lv = live[node]
                if kind == "alloc" and len(lv) < 5:
                    nm = ("L", nloc[node])
                    nloc[node] += 1
                    lv.append(nm)
                    steps[node].append(("alloc", nm))
                elif kind in ("free", "meas") and lv:
                    nm = lv[0] if rng.random() < 0.5 else rng.choice(lv)          # often the OLDEST
                    lv.remove(nm)
                    steps[node].append((kind, nm))
                elif kind in ("cnot", "cphase") and len(lv) >= 2:
                    a, b = rng.sample(lv, 2)
                    steps[node].append((kind, a, b))
                elif kind == "h" and lv:
                    steps[node].append(("h", rng.choice(lv)))
        for node in range(n_nodes):
            local_steps(node, rng.randrange(0, 5))
        for k in range(rng.randrange(1, 4)):
            c = rng.randrange(n_nodes)
            r = rng.choice([x for x in range(n_nodes) if x != c])
            n = rng.randrange(1, 3)
            if max(len(live[c]), len(live[r])) + n > 6:
                continue
            q = {"c": c, "r": r, "n": n, "s": len([x for x in reqs if {x["c"], x["r"]} == {c, r}]),
                 "tp": "M" if rng.random() < 0.3 else "K"}           # measure-directly pairs are consumed at once: nothing may stay behind
            reqs.append(q)
            ri = len(reqs) - 1
            for node in (c, r):
                steps[node].append(("req", ri))
                if q["tp"] == "K":
                    live[node] += [("H", ri, i) for i in range(n)]
                local_steps(node, rng.randrange(0, 3))
        for node in range(n_nodes):
            local_steps(node, rng.randrange(0, 4))
        order = list(range(n_nodes))
        rng.shuffle(order)
        gens.append({"reqs": reqs, "steps": steps, "stop_order": order})
    return {"n_nodes": n_nodes, "gens": gens, "pb": rng.random() < 0.25, "sched": rng.randrange(10 ** 6)}


def run_epr_plan(env, plan):
    """returns (problems, observations). Oracle on the implementation alone: every message completes; a stop at node X empties X
    and leaves the other nodes' held qubits alone; when all applications of a generation have stopped every node is back at
    (held, simulated, registers, register counter) = (0, 0, 0, 0)"""
    import random
    import qasm_epr as EP
    from props import c08
    net, names = c08.make_net(env, plan["n_nodes"], plan["pb"])
    P = []
    obs = []
    base = node_counts(net)
    for g, gen in enumerate(plan["gens"]):
        socks = {i: [] for i in range(plan["n_nodes"])}

        def sk(q, me):
            other = q["r"] if me == q["c"] else q["c"]
            return ("N%d" % other, q["s"] + 2 * other, q["s"] + 2 * me)
        for q in gen["reqs"]:
            for me in (q["c"], q["r"]):
                if sk(q, me) not in socks[me]:
                    socks[me].append(sk(q, me))
        streams, stops = {}, {}
        for node in range(plan["n_nodes"]):
            def body(conn, eprs, node=node):
                from netqasm.sdk.qubit import Qubit
                qs = {}
                dirty = False
                for st in gen["steps"][node]:
                    if st[0] == "req":
                        q = gen["reqs"][st[1]]
                        e = eprs[socks[node].index(sk(q, node))]
                        if q.get("tp", "K") == "M":
                            got = []
                            (e.create_measure if q["c"] == node else e.recv_measure)(q["n"])
                        else:
                            got = e.create_keep(q["n"]) if q["c"] == node else e.recv_keep(q["n"])
                        for i, x in enumerate(got):
                            qs[("H", st[1], i)] = x
                        conn.flush()
                        dirty = False
                        continue
                    if st[0] == "alloc":
                        qs[st[1]] = Qubit(conn)
                    elif st[0] == "free":
                        qs[st[1]].free()
                    elif st[0] == "meas":
                        qs[st[1]].measure()
                    elif st[0] == "h":
                        qs[st[1]].H()
                    elif st[0] == "cnot":
                        qs[st[1]].cnot(qs[st[2]])
                    elif st[0] == "cphase":
                        qs[st[1]].cphase(qs[st[2]])
                    dirty = True
                if dirty:
                    conn.flush()
            msgs = EP.sdk_messages(names, names[node], g, socks[node], body, max_qubits=8)
            streams[node] = [m for m in msgs if type(m).__name__ != "StopAppMessage"]
            stops[node] = [m for m in msgs if type(m).__name__ == "StopAppMessage"]
        Q.script_coins(env, [(i * 5 + g + plan["sched"]) % 2 for i in range(128)], len(env.tap))
        out = EP.run_concurrently(env, net, streams, random.Random(plan["sched"] + g))
        for node, lst in out.items():
            for (m, rep, esc) in lst:
                if esc or ("err", 0) in rep:
                    P.append({"kind": "message-failed", "what": "generation %d: %s at node %d: replies %r, escaped %r" % (g, type(m).__name__, node, rep, [str(e)[:200] for e in esc])})
        if P:
            break
        for node in gen["stop_order"]:
            before = node_counts(net)
            o = EP.run_concurrently(env, net, {node: stops[node]}, random.Random(1))
            rep = o[node][0][1] if o[node] else []
            after = node_counts(net)
            obs.append((g, node, before, after))
            if not rep or rep[-1][0] != "done" or ("err", 0) in rep:
                P.append({"kind": "stop-failed", "what": "generation %d: StopApp at node %d answered %r; node counts (held, sims, regs, numRegs) %r" % (g, node, rep, after)})
                break
            if after[node][0] != 0:
                P.append({"kind": "stop-keeps-qubits", "what": "generation %d: after its stop node %d still holds %d qubits" % (g, node, after[node][0])})
                break
            others = [(b[0], a[0]) for k, (b, a) in enumerate(zip(before, after)) if k != node]
            if any(b != a for b, a in others):
                P.append({"kind": "stop-destroys-foreign-halves", "what": "generation %d: the stop of node %d changed the number of qubits other nodes hold: %r -> %r"
                          % (g, node, [b[0] for b in before], [a[0] for a in after])})
                break
        if P:
            break
        if node_counts(net) != base:
            P.append({"kind": "population", "what": "generation %d: every application has stopped, but the nodes' (held, simulated, registers, register counter) are %r instead of %r"
                      % (g, node_counts(net), base)})
            break
    Q.script_coins(env, None, 0)
    return P, obs


REPEATER = {"n_nodes": 3, "pb": False, "sched": 7, "gens": [
    {"reqs": [{"c": 0, "r": 1, "n": 1, "s": 0}, {"c": 2, "r": 1, "n": 1, "s": 0}],
     "steps": [[("req", 0)], [("req", 0), ("req", 1), ("cnot", ("H", 0, 0), ("H", 1, 0)), ("h", ("H", 0, 0)), ("meas", ("H", 0, 0)), ("meas", ("H", 1, 0))], [("req", 1)]],
     "stop_order": [0, 1, 2]}] * 3}
# ids and numbers with holes: the OLDER of two local qubits is freed, then halves arrive / are created, gates between local qubits and halves
HOLES = {"n_nodes": 2, "pb": False, "sched": 11, "gens": [
    {"reqs": [{"c": 0, "r": 1, "n": 2, "s": 0}],
     "steps": [[("alloc", ("L", 0)), ("alloc", ("L", 1)), ("h", ("L", 1)), ("free", ("L", 0)), ("req", 0), ("cnot", ("L", 1), ("H", 0, 0)), ("free", ("H", 0, 0))],
               [("alloc", ("L", 0)), ("alloc", ("L", 1)), ("free", ("L", 0)), ("req", 0), ("cnot", ("L", 1), ("H", 0, 1)), ("free", ("H", 0, 1)), ("free", ("L", 1))]],
     "stop_order": [1, 0]}] * 2}


MDIRECT = {"n_nodes": 2, "pb": False, "sched": 13, "gens": [
    {"reqs": [{"c": 0, "r": 1, "n": 2, "s": 0, "tp": "M"}, {"c": 1, "r": 0, "n": 1, "s": 1, "tp": "M"}, {"c": 0, "r": 1, "n": 1, "s": 0, "tp": "K"}],
     "steps": [[("req", 0), ("req", 1), ("req", 2)], [("req", 0), ("req", 1), ("req", 2)]], "stop_order": [0, 1]}] * 2}


def judge_c11(s):
    """the property, evaluated on the implementation alone (no model, no reference interpreter):
    every stop completes with exactly one completion reply and no error; whenever no application is active the
    per-node counts (held, simulated, registers) are those of the start of the session; an application can be started
    whenever the node is idle"""
    probs = []
    base = s.records[0]["counts_before"] if s.records else None
    active = set()
    for k, r in enumerate(s.records):
        m = r["msg"]
        if m[0] == "init":
            if r["impl_replies"] != [("done", k)]:
                probs.append({"step": k, "kind": "init-refused" + ("-reused-id" if m[1] in s_stopped(s, k) else ""),
                              "what": "InitNewApp(app %d) on an idle node answered %r%s" % (m[1], r["impl_replies"], ", host stopped its reactor" if r["stopped"] else "")})
                break
            active.add(m[1])
        elif m[0] == "stop":
            if m[1] not in active:
                continue               # stopping something that is not running: not an application in the property's sense
            if r["impl_replies"] != [("done", k)]:
                probs.append({"step": k, "kind": "stop-failed",
                              "what": "StopApp(app %d) answered %r (no completion reply%s); node counts (held, sims, regs) %r, at session start %r"
                              % (m[1], r["impl_replies"], ", host stopped its reactor" if r["stopped"] else "", r["counts_after"], base)})
                break
            active.discard(m[1])
            if not active and r["counts_after"] != base:
                probs.append({"step": k, "kind": "population",
                              "what": "no application left, but node counts (held, sims, regs) are %r instead of %r" % (r["counts_after"], base)})
                break
        if r["stopped"] and not probs:
            probs.append({"step": k, "kind": "host-stopped", "what": "the NetQASM host stopped its reactor while handling %r" % (m[:2],)})
            break
    return probs


def s_stopped(s, k):
    return set(r["msg"][1] for r in s.records[:k] if r["msg"][0] == "stop")


def run(ctx):
    t = ctx.tier == "thorough"
    ctx.trusted += c09.TRUST
    ctx.rule = ("sessions of 3-5 application generations (fresh application ids, sometimes two at once) on nodes with capacity 1..3 qubits / 1..3 or 10 "
                "registers: allocations up to and beyond capacity, frees, entangling gates, failed subroutines (T, rotations, bad addresses), stop with "
                "qubits still mapped; oracle on the implementation alone: every StopApp answers exactly MsgDone, and whenever no application is active the "
                "per-node counts (held, simulated, registers) equal those before the first message; Coq decides model = implementation per message "
                "(Qasm/Cases.v); several nodes: generations of create-and-keep requests over 2-3 nodes, gates between the halves a node holds (repeater: both "
                "simulated elsewhere), measurements, frees, stops in random order, counts incl. the register counter back at zero after every generation; "
                "pair creations that cannot be completed (receiver full; room / register for one more qubit or none; measure-directly; creator "
                "holding other qubits; over the real PB) and successful ones: error reply, node counts after the failed request and after StopApp as "
                "before, Coq decides model = implementation per message incl. the removal of the temporaries (Qasm/EprCases.v); measure-directly "
                "requests of one pair with the creator's two basis choices forced through the seeded generator (all nine pairs, basis sets NONE/XZ/XYZ, "
                "weights written into the request array) and scripted coins, alone or with a create-and-keep request before / after on the same "
                "sockets (one deque), claimed at once or late: native calls, dumps, bookkeeping, deques and both ReturnArray records compared with the model; "
                "distinct = distinct (capacities, message, coins)")
    ctx.trusted.append("harness/qasm_eprfail.py: maps the tap records get_virt_num + netqasm_send_epr_half to Model V's OSend (the handle is the one "
                       "get_virt_num was called on, an accepted hand-over is recorded as OkNone), and the SDK's Qubit() / measure() to "
                       "QAlloc+QInit / QMeas+QFree; the receive deques are read from virtualNode.qubit_recv_epr; for measure-directly requests it "
                       "replicates _sample_basis_choice's use of random.choices to find the generator seed that yields the wanted bases, skips the tap record "
                       "netqasm_send_epr_half(None, ..) (compared through the deque dump) and reads the records from ReturnArray messages of 10 defined "
                       "values whose type field is OK_M")
    common.check_properties_file(ctx)
    logging.disable(logging.CRITICAL)
    env = N.setup()
    Q.setup_qasm(env)
    rng = ctx.rng
    sessions = []
    with c09.quiet():
        for name, caps, script in scenarios():
            for pb in (False, True):
                s = QR.replay(env, caps, script, pb=pb)
                s.scenario = name
                sessions.append(s)
        for i in range(900 if t else 110):
            sessions.append(G.random_session(QR, env, rng, pb=(i % 4 == 3), bad=0.15, tight=True, generations=rng.randrange(3, 6),
                                             overlap=0.15 if i % 2 else 0.0))
        name, caps, script = appid_reuse()
        reuse = QR.replay(env, caps, script)
        reuse.scenario = name
        leak_runs, leak_found = failed_pair_leak(env, rng, t)
        epr_found = []
        plans = [REPEATER, dict(REPEATER, pb=True), HOLES, dict(HOLES, pb=True), MDIRECT] + [random_epr_plan(rng, t) for _ in range(400 if t else 24)]
        for plan in plans:
            probs, obs = run_epr_plan(env, plan)
            ctx.count("epr_plans")
            ctx.count("epr_plans_over_real_PB", 1 if plan["pb"] else 0)
            ctx.count("epr_generations", len(plan["gens"]))
            ctx.count("epr_plan_measure_directly_requests", sum(1 for g_ in plan["gens"] for q_ in g_["reqs"] if q_.get("tp") == "M"))
            ctx.count("epr_stops_observed", len(obs))
            ctx.count("epr_plan_two_qubit_gates", sum(1 for g_ in plan["gens"] for a in g_["steps"] for x in a if x[0] in ("cnot", "cphase")))
            ctx.count("epr_plan_frees_and_measurements", sum(1 for g_ in plan["gens"] for a in g_["steps"] for x in a if x[0] in ("free", "meas")))
            ctx.count("epr_plan_local_allocations", sum(1 for g_ in plan["gens"] for a in g_["steps"] for x in a if x[0] == "alloc"))
            ctx.case(("epr-plan", str(plan)), nontrivial=True)
            if probs:
                epr_found.append((plan, probs))
    logging.disable(logging.NOTSET)
    gens = 0
    for s in sessions:
        ctx.count("sessions")
        for r in s.records:
            ctx.case((str(s.caps), str(r["msg"]), str(r["coins"][:6])), nontrivial=True)
            ctx.count("msg_" + r["msg"][0])
            ctx.count("ending_%d" % r["fin"])
            if r["msg"][0] == "stop":
                gens += 1
                ctx.count("qubits_cleared_by_stop", sum(1 for c in r["calls"] if c["method"] == "measure"))
            for c in r["calls"]:
                if c["status"] == "err":
                    ctx.count("native_refused_" + str(c["value"]))
        ctx.count("generations_max", 0)
        ctx.coverage["generations_max"] = max(ctx.coverage["generations_max"], sum(1 for r in s.records if r["msg"][0] == "stop"))
    ctx.count("generations", gens)
    ctx.sample({"caps": sessions[0].caps, "script": QR.script_of(sessions[0])})
    need = ["native_refused_noQubitError", "native_refused_quantumError", "qubits_cleared_by_stop"]
    missing = [k for k in need if not ctx.coverage.get(k)]
    ctx.obligation("refused allocations (qubit and register limit) and stops that still clear qubits exercised; >= 3 generations per session",
                   not missing and ctx.coverage["generations_max"] >= 3, "never hit: %r" % missing)
    bad = QR.correspond(ctx, sessions, "Model N (teardown) vs SubroutineHandler")
    # ---- oracle ----------------------------------------------------------------------------------------------------------------------
    seen = set()
    found = False
    logging.disable(logging.CRITICAL)
    for s in sessions + [reuse]:
        probs = judge_c11(s)
        if not probs and s.problems and s is not reuse:
            # the reference interpreter disagrees inside a generation: that is C09's verdict (./check C09 reports it);
            # here the session simply ended early
            ctx.count("sessions_cut_short_by_a_C09_deviation")
        if not probs:
            continue
        p = probs[0]
        key = "C11:" + p["kind"]
        if s is reuse:
            key = "C11:appid-reuse"
        if key in seen:
            continue
        seen.add(key)
        kind = p["kind"]

        def pred(ss, kind=kind):
            return any(q["kind"] == kind for q in judge_c11(ss))
        with c09.quiet():
            small = QR.shrink(env, s.caps, QR.script_of(s, p["step"]), pred, pb=s.pb, budget=150 if t else 80)
            ss = QR.replay(env, s.caps, small, pb=s.pb)
        pp = [q for q in judge_c11(ss) if q["kind"] == kind]
        what = pp[0]["what"] if pp else p["what"]
        ctx.obligation("oracle %s" % key, False, what)
        if ctx.report(key, what, {"caps": s.caps, "host_over_real_PB": s.pb,
                                  "script": [[list(m[:2]) + ([[list(i) for i in m[2]]] if m[0] == "sub" else list(m[2:])), c] for m, c in small],
                                  "impl_replies": [r["impl_replies"] for r in ss.records],
                                  "counts_after_each_message": [r["counts_after"] for r in ss.records]}, found_input=True):
            found = True
        else:
            ctx.broken_explained_by_known = True
    logging.disable(logging.NOTSET)
    # ---- pair creations that fail: oracle, then the correspondence of the model of cmd_epr's cleanup with the real handler ---------
    import qasm_eprfail as F
    for r in leak_runs:
        sc = r["sc"]
        ctx.count("pair_creation_scenarios")
        ctx.count("pair_creation_" + sc["kind"].replace("-", "_"))
        ctx.count("pair_creation_over_real_PB", 1 if sc["pb"] else 0)
        ctx.count("pair_creation_creator_holds_other_qubits", 1 if sc["pre"] else 0)
        ctx.count("pair_creation_measure_directly", 1 if sc["type"] == "M" else 0)
        if sc["kind"] == "ok" and "M" in (sc["type"], sc.get("then")):
            ctx.count("md_pair_ok")
            ctx.count("md_pair_bases_" + sc["md"]["bases"])
            ctx.count("md_pair_sets_%s_%s" % tuple(sc["md"]["rb"]))
            ctx.count("md_pair_with_keep_request_in_the_same_deque", 1 if sc.get("then") else 0)
            ctx.count("md_pair_distinct_socket_ids", 1 if sc["socks"][0] != sc["socks"][1] else 0)
            ctx.count("md_pair_over_real_PB", 1 if sc["pb"] else 0)
        if sc["kind"] != "ok" and sc["type"] == "M" and sc["kind"] != "md-rotation":
            ctx.count("md_pair_failing_modelled")
        ctx.count("pair_creation_cleanup_measurements",
                  sum(1 for m in r["records"] if m["role"] == "create" and sc["kind"] != "ok" for c in m["calls"] if c["method"] == "measure"))
        ctx.count("md_pair_destructive_measurements",
                  sum(1 for m in r["records"] if m["role"].startswith("create") and m.get("type") == "M" and sc["kind"] == "ok" for c in m["calls"] if c["method"] == "measure"))
        ctx.case(("pair-creation", str(sorted(sc.items()))), nontrivial=True)
    need_k = ["pair_creation_receiver_full", "pair_creation_room_for_one", "pair_creation_register_for_one", "pair_creation_room_for_none",
              "pair_creation_not_adjacent", "pair_creation_md_rotation", "pair_creation_ok", "pair_creation_creator_holds_other_qubits", "pair_creation_measure_directly",
              "md_pair_with_keep_request_in_the_same_deque", "md_pair_distinct_socket_ids", "md_pair_failing_modelled"] + ["md_pair_bases_" + a + b for a in "ZXY" for b in "ZXY"]
    ctx.obligation("failing pair creations exercised: receiver full, room / register for one more qubit only, none, measure-directly; creator holding "
                   "other qubits; successful requests for contrast; successful measure-directly pairs in all nine pairs of sampled bases, with a "
                   "create-and-keep request sharing the deque, with distinct socket ids", all(ctx.coverage.get(k) for k in need_k),
                   "never hit: %r" % [k for k in need_k if not ctx.coverage.get(k)])
    seen_leak = set()
    for r, probs in leak_found:
        key = "C11:" + probs[0]["kind"]
        if key in seen_leak:
            continue
        seen_leak.add(key)
        what = "%s -- %s" % (probs[0]["what"], F.describe(r["sc"]))
        ctx.obligation("oracle %s" % key, False, what)
        if ctx.report(key, what, F.replay_obj(r), found_input=True):
            found = True
        else:
            ctx.broken_explained_by_known = True
    if not leak_found:
        ctx.obligation("oracle (pair creation): a request that cannot be completed answers an error and leaves every node's (held, simulated, registers, "
                       "register counter) as before the request; after StopApp the creator's node is as before the application (%d scenarios)"
                       % len(leak_runs), True)
    bad_epr = F.correspond(ctx, leak_runs)
    if bad_epr and not leak_found:
        r, i = bad_epr[0]
        if ctx.report("correspondence:C11-pair-creation", "the model of cmd_epr (EprGate.cmd_epr_keep / cmd_epr_measure inside TeardownNet.nstep_r) and the implementation disagree "
                      "(the count oracle is satisfied on the explored scenarios)", dict(F.replay_obj(r), first_disagreeing_message=i), found_input=False):
            found = True
    ctx.obligation("oracle (several nodes): generations of pair requests, repeater gates, frees and stops in any order leave every node at (0, 0, 0, 0); "
                   "a stop never changes what other nodes hold", not epr_found, epr_found[0][1][0]["what"] if epr_found else "")
    for plan, probs in epr_found[:1]:
        key = "C11:epr-" + probs[0]["kind"]
        if ctx.report(key, probs[0]["what"], {"plan": plan, "problems": probs}, found_input=True):
            found = True
        else:
            ctx.broken_explained_by_known = True
    if not seen - {"C11:appid-reuse"}:
        ctx.obligation("oracle: every stop completes and idle nodes are back at their initial counts (fresh application ids)", True)
    if bad and not found and not (seen - {"C11:appid-reuse"}):
        s, i = bad[0]
        ctx.report("correspondence:C11", "Model N and the implementation disagree (the count oracle is satisfied on the explored sessions)",
                   {"caps": s.caps, "script": QR.script_of(s, i), "broken": ctx.broken()}, found_input=False)
