(* C07 at history level: the decision tables of Refusal.v, read in every reachable state against the CONFIGURED maximum
   (the limit a node enforces is the configured one for ever, and the number of nodes never changes). *)
From Coq Require Import List Bool Arith Lia.
From SQ Require Import Base.ListUtil Stab.Tableau Net.Model Net.Refusal Net.Capacity.
Import ListNotations.

Lemma caps_of_run caps ops : caps_of (run (init_net caps) ops) = caps.
Proof.
  destruct (init_cap caps) as [_ B]. destruct (run_keeps ops (init_net caps)) as [_ D]. congruence.
Qed.

Lemma node_count_constant caps ops : length (nodes (run (init_net caps) ops)) = length caps.
Proof.
  pose proof (caps_of_run caps ops) as E. unfold caps_of in E.
  rewrite <- E at 2. rewrite map_length. reflexivity.
Qed.

Lemma configured_max_constant caps ops i :
  maxQ (nth_node (run (init_net caps) ops) i) = fst (nth i caps (0, 0)).
Proof.
  pose proof (caps_of_run caps ops) as D. revert D. generalize (run (init_net caps) ops) as s. intros s D.
  subst caps. unfold caps_of.
  change (0, 0) with ((fun nd => (maxQ nd, maxR nd)) (empty_node 0 0)). rewrite map_nth. reflexivity.
Qed.

(* after any history, a node holding exactly its configured maximum refuses every creation with noQubitError ... *)
Theorem full_node_refuses_creation caps ops i :
  i < length caps ->
  length (virt (nth_node (run (init_net caps) ops) i)) = fst (nth i caps (0, 0)) ->
  step (run (init_net caps) ops) (ONew i) = (run (init_net caps) ops, Err KNoQubit).
Proof.
  intros Hi Hfull. set (s := run (init_net caps) ops) in *.
  assert (Hl : i < length (nodes s)) by (unfold s; rewrite node_count_constant; exact Hi).
  destruct (new_decision s i Hl) as [[_ A] _].
  assert (R : snd (step s (ONew i)) = Err KNoQubit).
  { apply A. unfold s. rewrite configured_max_constant. fold s. lia. }
  destruct (step s (ONew i)) as [s' r] eqn:E. cbn [snd] in R. subst r.
  pose proof (refusal_atomic s (ONew i) s' KNoQubit E) as ->. reflexivity.
Qed.

(* ... and every hand-over towards it, leaving the whole network unchanged (the sender keeps its qubit) *)
Theorem full_node_refuses_receive caps ops h t vi q :
  t < length caps ->
  find_handle (run (init_net caps) ops) h = Some (vi, q) ->
  length (virt (nth_node (run (init_net caps) ops) t)) = fst (nth t caps (0, 0)) ->
  step (run (init_net caps) ops) (OSend h t) = (run (init_net caps) ops, Err KNoQubit).
Proof.
  intros Ht Hf Hfull. set (s := run (init_net caps) ops) in *.
  assert (Hl : t < length (nodes s)) by (unfold s; rewrite node_count_constant; exact Ht).
  destruct (send_decision s h t vi q Hf) as [_ [[_ A] _]].
  assert (R : snd (step s (OSend h t)) = Err KNoQubit).
  { apply A. split; [exact Hl|]. unfold s. rewrite configured_max_constant. fold s. lia. }
  destruct (step s (OSend h t)) as [s' r] eqn:E. cbn [snd] in R. subst r.
  pose proof (refusal_atomic s (OSend h t) s' KNoQubit E) as ->. reflexivity.
Qed.

(* below the configured maximum, creation is never refused for lack of qubit capacity *)
Theorem below_max_never_noqubit caps ops i :
  i < length caps ->
  length (virt (nth_node (run (init_net caps) ops) i)) < fst (nth i caps (0, 0)) ->
  snd (step (run (init_net caps) ops) (ONew i)) <> Err KNoQubit.
Proof.
  intros Hi Hlt. set (s := run (init_net caps) ops) in *.
  assert (Hl : i < length (nodes s)) by (unfold s; rewrite node_count_constant; exact Hi).
  destruct (new_decision s i Hl) as [[A _] _]. intro R. apply A in R.
  unfold s in R. rewrite configured_max_constant in R. fold s in R. lia.
Qed.
