(* Model L: node locks of the virtual-node network as a labelled transition system at the granularity of the
   yield points of simulaqron/virtual_node/virtual.py.

   _get_global_lock (324-329)     poll while `locked`, then acquire: a request *arrives* at a node (EReq), stays a poller, and
                                  is granted (EAcq) only when the lock is free; there is no timeout.
   _release_global_lock (335-338) `if locked: release()` - no owner test: ERel clears the lock whoever holds it.
   remote_new_qubit, _single_gate, remote_measure, remote_add_qubit: one node lock around the body        -> KOne
   remote_send_qubit (674-738)    own lock, held across the receiver's add_qubit (which takes the receiver's lock) -> KSend / KSend3
   _lock_nodes (1391-1449)        request all nodes, race against a timer; on timeout `d_lock.cancel()` makes every request
                                  deferred `called`, so release_global_lock is sent to EVERY node of the attempt; the remote
                                  requests that were not granted stay alive at their node (orphans) and acquire later for ever.
   The DeferredLock never queues (check and acquire are in one atomic segment), so a lock is an `option owner`. *)
From Coq Require Import List Bool Arith Lia.
From SQ Require Import Base.ListUtil.
Import ListNotations.

Definition nid := nat.
Definition opid := nat.
Definition rid := nat.

Inductive act := AReq (n : nid) | AAcq (n : nid) | ARel (n : nid).

Inductive okind :=
| KNop                                   (* handle already inactive: returns without touching a lock *)
| KOne (n : nid)                         (* create at n / gate or measurement of a qubit simulated at n *)
| KSend (a b : nid)                      (* send a -> b of a qubit simulated at a (or at b); a = b is the self-addressed send *)
| KSend3 (a c b : nid)                   (* send a -> b of a qubit simulated at a third node c *)
| KGate2 (l : nid)                       (* two-qubit gate issued at l; every _lock_nodes attempt names its remote nodes *)
| KAny.                                  (* placement may change under a concurrent merge: any lock behaviour, node guards only *)

Definition prog_of (k : okind) : list act :=
  match k with
  | KOne n => [AReq n; AAcq n; ARel n]
  | KSend a b => [AReq a; AAcq a; AReq b; AAcq b; ARel b; ARel a]
  | KSend3 a c b => [AReq a; AAcq a; AReq c; AAcq c; AReq b; AAcq b; ARel b; ARel c; ARel a]
  | _ => []
  end.

Definition disciplined (k : okind) : bool :=
  match k with KGate2 _ | KAny => false | _ => true end.

Inductive rq := RFlight | RPoll (r : rid) | RGranted.

Inductive ost :=
| SIdle
| SRun (held : list nid) (prog : list act) (cur : option rid)     (* straight-line lock program; cur = id of the polling request *)
| SG2Start
| SG2 (reqs : list (nid * rq))                                    (* one _lock_nodes attempt *)
| SG2Rel (rel : list nid)                                         (* release_global_lock still to be executed at these nodes *)
| SAny (polls : list (nid * rid))
| SDone.

Inductive ev :=
| EIssue (o : opid)
| ELockn (o : opid) (rs : list nid)      (* _lock_nodes entered: local node and the simulating nodes rs, as they are now *)
| EReq (n : nid) (o : opid) (r : rid)
| EAcq (n : nid) (o : opid) (r : rid)
| ERel (n : nid) (o : opid) (was : bool)
| ETimeout (o : opid)
| EDone (o : opid).

(* lock owner: operation and whether the granted request was an orphan of a timed-out _lock_nodes attempt *)
Definition owner := (opid * bool)%type.

Record st := mk {
  locks : list (option owner);
  ops : list ost;
  orph : list (nid * opid * option rid)      (* orphaned requests: still in flight (None) or polling *)
}.

Definition lock_of (s : st) (n : nid) : option owner := nth n (locks s) None.
Definition op_of (s : st) (o : opid) : ost := nth o (ops s) SDone.
Definition kind_of (cfg : list okind) (o : opid) : okind := nth o cfg KNop.

Definition set_lock (s : st) (n : nid) (v : option owner) : st := mk (upd (locks s) n v) (ops s) (orph s).
Definition set_op (s : st) (o : opid) (v : ost) : st := mk (locks s) (upd (ops s) o v) (orph s).
Definition set_orph (s : st) (v : list (nid * opid * option rid)) : st := mk (locks s) (ops s) v.

Definition init (nnodes : nat) (cfg : list okind) : st :=
  mk (repeat None nnodes) (map (fun _ => SIdle) cfg) [].

Definition is_some {A} (x : option A) : bool := match x with Some _ => true | None => false end.

Fixpoint remove1 (n : nid) (l : list nid) : list nid :=
  match l with
  | [] => []
  | h :: t => if Nat.eqb h n then t else h :: remove1 n t
  end.

Fixpoint mem (n : nid) (l : list nid) : bool :=
  match l with [] => false | h :: t => Nat.eqb h n || mem n t end.

(* ---- orphaned requests ---- *)
Definition orph_flight (n : nid) (o : opid) (x : nid * opid * option rid) : bool :=
  match x with (n', o', None) => Nat.eqb n n' && Nat.eqb o o' | _ => false end.
Definition orph_poll (n : nid) (o : opid) (r : rid) (x : nid * opid * option rid) : bool :=
  match x with (n', o', Some r') => Nat.eqb n n' && Nat.eqb o o' && Nat.eqb r r' | _ => false end.

Fixpoint replace_first {A} (p : A -> bool) (y : A) (l : list A) : option (list A) :=
  match l with
  | [] => None
  | h :: t => if p h then Some (y :: t) else option_map (cons h) (replace_first p y t)
  end.

Fixpoint remove_first {A} (p : A -> bool) (l : list A) : option (list A) :=
  match l with
  | [] => None
  | h :: t => if p h then Some t else option_map (cons h) (remove_first p t)
  end.

(* ---- requests of a _lock_nodes attempt ---- *)
Fixpoint req_arrive (n : nid) (r : rid) (l : list (nid * rq)) : option (list (nid * rq)) :=
  match l with
  | [] => None
  | (m, q) :: t =>
      match q with
      | RFlight => if Nat.eqb m n then Some ((m, RPoll r) :: t) else option_map (cons (m, q)) (req_arrive n r t)
      | _ => option_map (cons (m, q)) (req_arrive n r t)
      end
  end.

Fixpoint req_grant (n : nid) (r : rid) (l : list (nid * rq)) : option (list (nid * rq)) :=
  match l with
  | [] => None
  | (m, q) :: t =>
      match q with
      | RPoll r' => if Nat.eqb m n && Nat.eqb r r' then Some ((m, RGranted) :: t) else option_map (cons (m, q)) (req_grant n r t)
      | _ => option_map (cons (m, q)) (req_grant n r t)
      end
  end.

Definition all_granted (l : list (nid * rq)) : bool :=
  forallb (fun x => match snd x with RGranted => true | _ => false end) l.

(* the requests of a timed-out attempt that stay alive: every remote request that was not granted.  The local request
   (node l) is a direct call: cancelling it stops its poll timer. *)
Definition orphans_of (l : nid) (o : opid) (reqs : list (nid * rq)) : list (nid * opid * option rid) :=
  flat_map (fun x => match x with
                     | (m, RFlight) => if Nat.eqb m l then [] else [(m, o, None)]
                     | (m, RPoll r) => if Nat.eqb m l then [] else [(m, o, Some r)]
                     | (_, RGranted) => []
                     end) reqs.

Definition rel_lock (s : st) (n : nid) (was : bool) : option st :=
  if Bool.eqb was (is_some (lock_of s n)) then Some (set_lock s n None) else None.

Definition polls_has (n : nid) (r : rid) (x : nid * rid) : bool := Nat.eqb (fst x) n && Nat.eqb (snd x) r.

(* ---- one event ---- *)
Definition step (cfg : list okind) (s : st) (e : ev) : option st :=
  match e with
  | EIssue o =>
      match op_of s o with
      | SIdle =>
          match kind_of cfg o with
          | KGate2 _ => Some (set_op s o SG2Start)
          | KAny => Some (set_op s o (SAny []))
          | k => Some (set_op s o (SRun [] (prog_of k) None))
          end
      | _ => None
      end
  | ELockn o rs =>
      match kind_of cfg o, op_of s o with
      | KGate2 l, SG2Start => Some (set_op s o (SG2 (map (fun n => (n, RFlight)) (l :: rs))))
      | KGate2 l, SG2Rel [] => Some (set_op s o (SG2 (map (fun n => (n, RFlight)) (l :: rs))))
      | _, _ => None
      end
  | EReq n o r =>
      (* PB links are FIFO: an orphaned request still in flight to n arrives before a request of a later attempt *)
      match replace_first (orph_flight n o) (n, o, Some r) (orph s) with
      | Some orph' => Some (set_orph s orph')
      | None =>
          match op_of s o with
          | SRun held (AReq m :: p) None => if Nat.eqb m n then Some (set_op s o (SRun held p (Some r))) else None
          | SG2 reqs => option_map (fun q => set_op s o (SG2 q)) (req_arrive n r reqs)
          | SAny polls => Some (set_op s o (SAny ((n, r) :: polls)))
          | _ => None
          end
      end
  | EAcq n o r =>
      match lock_of s n with
      | Some _ => None                                   (* granted only when the lock is free *)
      | None =>
          if Nat.ltb n (length (locks s)) then
          match remove_first (orph_poll n o r) (orph s) with
          | Some orph' => Some (set_lock (set_orph s orph') n (Some (o, true)))
          | None =>
              match op_of s o with
              | SRun held (AAcq m :: p) (Some r') =>
                  if Nat.eqb m n && Nat.eqb r r' then Some (set_lock (set_op s o (SRun (n :: held) p None)) n (Some (o, false))) else None
              | SG2 reqs => option_map (fun q => set_lock (set_op s o (SG2 q)) n (Some (o, false))) (req_grant n r reqs)
              | SAny polls =>
                  option_map (fun q => set_lock (set_op s o (SAny q)) n (Some (o, false))) (remove_first (polls_has n r) polls)
              | _ => None
              end
          end
          else None
      end
  | ERel n o was =>
      match op_of s o with
      | SRun held (ARel m :: p) None =>
          if Nat.eqb m n then rel_lock (set_op s o (SRun (remove1 n held) p None)) n was else None
      | SG2 reqs =>
          (* all granted: the gate body ran (or the simulating nodes changed); the locked nodes are released one by one *)
          if all_granted reqs && mem n (map fst reqs)
          then rel_lock (set_op s o (SG2Rel (remove1 n (map fst reqs)))) n was else None
      | SG2Rel rel =>
          if mem n rel then rel_lock (set_op s o (SG2Rel (remove1 n rel))) n was else None
      | SAny polls => rel_lock s n was
      | _ => None
      end
  | ETimeout o =>
      match kind_of cfg o, op_of s o with
      | KGate2 l, SG2 reqs =>
          (* the timer may fire while the answer of the last grant is still on its way: no `all granted` guard *)
          Some (set_orph (set_op s o (SG2Rel (map fst reqs))) (orph s ++ orphans_of l o reqs))
      | _, _ => None
      end
  | EDone o =>
      match op_of s o with
      | SRun _ [] None => Some (set_op s o SDone)
      | SG2Rel [] => Some (set_op s o SDone)
      | SG2 reqs =>
          (* `yield self._lock_inreg(self)` (virtual.py:1528) sits between _lock_nodes and the `try`: an exception there ends the
             operation with every node lock still held *)
          if all_granted reqs then Some (set_op s o SDone) else None
      | SAny [] => Some (set_op s o SDone)
      | _ => None
      end
  end.

Fixpoint run (cfg : list okind) (s : st) (tr : list ev) : option st :=
  match tr with
  | [] => Some s
  | e :: t => match step cfg s e with Some s' => run cfg s' t | None => None end
  end.

(* first rejected event (1-based), 0 = accepted *)
Fixpoint reject_at (cfg : list okind) (s : st) (tr : list ev) (i : nat) : nat :=
  match tr with
  | [] => 0
  | e :: t => match step cfg s e with Some s' => reject_at cfg s' t (S i) | None => S i end
  end.

Definition is_done (x : ost) : bool := match x with SDone => true | _ => false end.
Definition done (s : st) (o : opid) : bool := is_done (op_of s o).

Fixpoint indices_where {A} (p : A -> bool) (l : list A) (i : nat) : list nat :=
  match l with [] => [] | h :: t => if p h then i :: indices_where p t (S i) else indices_where p t (S i) end.

Definition done_ops (s : st) : list nat := indices_where is_done (ops s) 0.
Definition held_nodes (s : st) : list nat := indices_where (@is_some owner) (locks s) 0.
Definition orphan_held (s : st) : list nat :=
  indices_where (fun x : option owner => match x with Some (_, true) => true | _ => false end) (locks s) 0.
