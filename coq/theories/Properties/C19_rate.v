(* C19 — the one statement that needs real numbers: the documented rate lies in [0, 1/4), so that the three
   intervals of C19_branches (stated for 0 <= p <= 1/4) exist inside [0,1).  Depends on the Coq standard
   library's axiomatisation of R (listed by Print Assumptions and repeated in the evidence file). *)
From Coq Require Import Reals.
From SQ Require Import Noise.Rate.
Local Open Scope R_scope.

Theorem C19_rate_range : forall t T1, 0 <= t -> 0 < T1 -> 0 <= rate t T1 < 1 / 4.
Proof. exact rate_range_lemma. Qed.
Print Assumptions C19_rate_range.

Theorem C19_rate_positive : forall t T1, 0 < t -> 0 < T1 -> 0 < rate t T1.
Proof. exact rate_pos. Qed.
Print Assumptions C19_rate_positive.

Theorem C19_rate_zero_idle : forall T1, rate 0 T1 = 0.
Proof. exact rate_zero. Qed.
Print Assumptions C19_rate_zero_idle.
