(* boolean_gaussian_elimination keeps the rows linearly independent over GF(2) (columns < 2n):
   every step of the loop is a row swap or the addition of the pivot row to other rows, and both are
   undone on the side of the selection vector. *)
From Coq Require Import List Bool Arith Lia.
From SQ Require Import Base.ListUtil Stab.Pauli Stab.Kernels Stab.Gates Stab.Tableau Stab.Group Stab.GroupGates Stab.MulProof Stab.GaussProof Stab.MeasureProof Stab.F2.
Import ListNotations.

(* ---------- the two views of "the selection is zero" ------------------------------------------------- *)
Lemma forallb_negb_nth sel :
  forallb negb sel = true <-> forall i, i < length sel -> nth i sel false = false.
Proof.
  induction sel as [|s sel IH]; simpl.
  - split; [intros _ i Hi; lia|auto].
  - rewrite andb_true_iff, IH. split.
    + intros [Hs H] [|i] Hi; [destruct s; [discriminate|reflexivity]|apply H; lia].
    + intro H. split.
      * specialize (H 0). destruct s; simpl in *; [|reflexivity]. assert (X : true = false) by (apply H; lia). discriminate.
      * intros i Hi. apply (H (S i)). lia.
Qed.

Lemma get_nil j : get [] j = false.
Proof. unfold get. destruct j; reflexivity. Qed.

(* ---------- lin under a point update of the selection / of the matrix -------------------------------- *)
Lemma lin_upd_sel : forall sel t i s j, i < length sel ->
  lin (upd sel i s) t j = xorb (lin sel t j) (xorb (nth i sel false) s && get (nth i t []) j).
Proof.
  induction sel as [|a sel IH]; intros t i s j Hi; simpl in Hi; [lia|].
  destruct i as [|i], t as [|r t]; simpl.
  - rewrite get_nil, andb_false_r. reflexivity.
  - destruct a, s, (get r j), (lin sel t j); reflexivity.
  - rewrite get_nil, andb_false_r. reflexivity.
  - rewrite IH by lia.
    destruct a, (get r j), (lin sel t j), (xorb (nth i sel false) s && get (nth i t []) j); reflexivity.
Qed.

Lemma lin_upd_t : forall t sel i v j, i < length t ->
  lin sel (upd t i v) j = xorb (lin sel t j) (nth i sel false && xorb (get (nth i t []) j) (get v j)).
Proof.
  induction t as [|r t IH]; intros sel i v j Hi; simpl in Hi; [lia|].
  destruct i as [|i], sel as [|s sel]; simpl; try reflexivity.
  - destruct s, (get r j), (get v j), (lin sel t j); reflexivity.
  - rewrite IH by lia.
    destruct s, (get r j), (lin sel t j), (nth i sel false && xorb (get (nth i t []) j) (get v j)); reflexivity.
Qed.

(* ---------- swap of two rows ----------------------------------------------------------------------------- *)
Lemma lin_swap sel t a b j : a < length t -> b < length t -> length sel = length t ->
  lin sel (swap_rows t a b) j = lin (upd (upd sel a (nth b sel false)) b (nth a sel false)) t j.
Proof.
  intros Ha Hb Hl. unfold swap_rows.
  rewrite lin_upd_t by (rewrite upd_length; lia). rewrite lin_upd_t by lia.
  rewrite lin_upd_sel by (rewrite upd_length; lia). rewrite lin_upd_sel by lia.
  rewrite !nth_upd_gen by lia.
  destruct (Nat.eqb_spec a b) as [->|Hab].
  - destruct (nth b sel false), (get (nth b t []) j), (lin sel t j); reflexivity.
  - destruct (nth a sel false), (nth b sel false), (get (nth a t []) j), (get (nth b t []) j), (lin sel t j);
      reflexivity.
Qed.

Lemma lindep_swap m t a b : a < length t -> b < length t -> lindep m t -> lindep m (swap_rows t a b).
Proof.
  intros Ha Hb Hd sel Hl Hz. rewrite swap_rows_length in Hl.
  assert (H : forallb negb (upd (upd sel a (nth b sel false)) b (nth a sel false)) = true).
  { apply Hd; [rewrite !upd_length; auto|]. intros j Hj. rewrite <- lin_swap by auto. apply Hz; auto. }
  rewrite forallb_negb_nth in H. rewrite !upd_length in H.
  apply forallb_negb_nth. intros i Hi.
  destruct (Nat.eq_dec i a) as [->|Hia].
  - specialize (H b). rewrite nth_upd_gen in H by (rewrite upd_length; lia).
    rewrite Nat.eqb_refl in H. apply H. lia.
  - destruct (Nat.eq_dec i b) as [->|Hib].
    + specialize (H a). rewrite nth_upd_gen in H by (rewrite upd_length; lia).
      destruct (Nat.eqb_spec b a) as [E|_]; [lia|].
      rewrite nth_upd_gen in H by lia. rewrite Nat.eqb_refl in H. apply H. lia.
    + specialize (H i). rewrite nth_upd_gen in H by (rewrite upd_length; lia).
      destruct (Nat.eqb_spec b i) as [E|_]; [lia|].
      rewrite nth_upd_gen in H by lia.
      destruct (Nat.eqb_spec a i) as [E|_]; [lia|]. apply H. lia.
Qed.

(* ---------- addition of the pivot row to the rows that carry a 1 in column k ----------------------- *)
(* parity of the selected rows, other than row h, that are modified (index offset i as in map_idx_from) *)
Fixpoint par (h k i : nat) (sel : list bool) (l : list row) : bool :=
  match sel, l with
  | s :: sel', r :: l' => xorb (s && (negb (Nat.eqb i h) && get r k)) (par h k (S i) sel' l')
  | _, _ => false
  end.

Lemma lin_map_idx_from n h k piv j : j < 2 * n -> forall l sel i,
  lin sel (map_idx_from i (fun x r => if negb (Nat.eqb x h) && get r k then mul_rows n r piv else r) l) j =
  xorb (lin sel l j) (par h k i sel l && get piv j).
Proof.
  intro Hj. induction l as [|r l IH]; intros [|s sel] i; simpl; try reflexivity.
  rewrite IH.
  destruct (negb (Nat.eqb i h) && get r k); [rewrite get_mul_rows_lt by auto|];
    destruct s, (get r j), (get piv j), (lin sel l j), (par h k (S i) sel l); reflexivity.
Qed.

Lemma lin_eliminate n h k t sel j : j < 2 * n ->
  lin sel (eliminate n h k t) j = xorb (lin sel t j) (par h k 0 sel t && get (nth h t []) j).
Proof. intro Hj. unfold eliminate, map_idx. apply lin_map_idx_from; auto. Qed.

Lemma par_false h k : forall sel l i,
  (forall x, x < length sel -> i + x <> h -> nth x sel false = false) -> par h k i sel l = false.
Proof.
  induction sel as [|s sel IH]; intros [|r l] i H; simpl; try reflexivity.
  rewrite IH.
  - destruct (Nat.eqb_spec i h) as [E|E]; simpl.
    + rewrite andb_false_r. reflexivity.
    + specialize (H 0). simpl in H. rewrite H by lia. reflexivity.
  - intros x Hx Hne. apply (H (S x)); simpl; lia.
Qed.

Lemma lindep_eliminate n h k t : h < length t -> lindep (2 * n) t -> lindep (2 * n) (eliminate n h k t).
Proof.
  intros Hh Hd sel Hl Hz. rewrite eliminate_length in Hl.
  remember (par h k 0 sel t) as p eqn:Ep.
  assert (H : forallb negb (upd sel h (xorb (nth h sel false) p)) = true).
  { apply Hd; [rewrite upd_length; auto|]. intros j Hj.
    rewrite lin_upd_sel by lia. pose proof (Hz j Hj) as Hzj.
    rewrite lin_eliminate in Hzj by auto. rewrite <- Ep in Hzj.
    destruct (nth h sel false), p, (get (nth h t []) j), (lin sel t j); simpl in *; congruence. }
  rewrite forallb_negb_nth in H. rewrite upd_length in H.
  assert (Hne : forall x, x < length sel -> x <> h -> nth x sel false = false).
  { intros x Hx Hxh. specialize (H x Hx). rewrite nth_upd_gen in H by lia.
    destruct (Nat.eqb_spec h x) as [E|_]; [lia|]. exact H. }
  assert (Hp : p = false).
  { rewrite Ep. apply par_false. intros x Hx Hxh. apply Hne; lia. }
  apply forallb_negb_nth. intros i Hi.
  destruct (Nat.eq_dec i h) as [->|Hih]; [|apply Hne; auto].
  specialize (H h Hi). rewrite nth_upd_gen in H by lia. rewrite Nat.eqb_refl in H.
  rewrite Hp, xorb_false_r in H. exact H.
Qed.

(* ---------- the loop ------------------------------------------------------------------------------------------ *)
Lemma gauss_aux_lindep n : forall fuel k h t,
  lindep (2 * n) t -> lindep (2 * n) (gauss_aux fuel n k h t).
Proof.
  induction fuel as [|f IH]; intros k h t Hd; simpl; [exact Hd|].
  destruct (Nat.ltb_spec h (length t)) as [Hh|Hh]; [|exact Hd].
  destruct (find_pivot h k t) as [i|] eqn:Ep; [|apply IH; exact Hd].
  apply find_pivot_bound in Ep; auto.
  apply IH. destruct (Nat.eqb_spec i h) as [E|E].
  - apply lindep_eliminate; auto.
  - apply lindep_eliminate; [rewrite swap_rows_length; auto|]. apply lindep_swap; auto; lia.
Qed.

Theorem gauss_lindep n t : lindep (2 * n) t -> lindep (2 * n) (gauss n t).
Proof. intro H. unfold gauss. apply gauss_aux_lindep. exact H. Qed.

