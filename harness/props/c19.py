"""C19 — noise is absent unless enabled and depolarizing at the documented rate.
   obligations  : Gen/NoiseGen.v (threshold chain / idle clock regenerated from quantum.py = hand model; every gate and
                  measurement syntactically starts with the noise call), Gen/NoiseRateGen.v (rate expression),
                  Properties/C19.v, Properties/C19_rate.v (Coq Reals, stdlib axioms named)
   correspondence: the REAL simulatedQubit._apply_random_pauli_noise (called directly and through each of the 11
                  operations) on a real stabilizerEngine, clock / draw scripted, engine calls recorded with the tableau
                  at each call; Coq (exact rationals of the doubles) decides agreement with Noise.Decide
   oracle       : 50-digit Decimal evaluation of (1-exp(-t/T1))/4 and the three real intervals; matrix conjugation
                  (oracle_np) for "that Pauli on that qubit only"; noise off = the bare operation on a copy"""
import math
import os
import sys
from decimal import Decimal, getcontext
from fractions import Fraction

import numpy as np

import common
import oracle_np as O
import stab_common as S

OPS1 = ["remote_apply_X", "remote_apply_K", "remote_apply_Y", "remote_apply_Z", "remote_apply_H",
        "remote_apply_T", "remote_apply_rotation", "remote_measure_inplace", "remote_measure"]
OPS2 = ["remote_cnot_onto", "remote_cphase_onto"]
ENGINE_CALL = {"remote_apply_X": "apply_X", "remote_apply_K": "apply_K", "remote_apply_Y": "apply_Y",
               "remote_apply_Z": "apply_Z", "remote_apply_H": "apply_H", "remote_apply_T": "apply_T",
               "remote_apply_rotation": "apply_rotation", "remote_measure_inplace": "measure_qubit_inplace",
               "remote_measure": "measure_qubit", "remote_cnot_onto": "apply_CNOT", "remote_cphase_onto": "apply_CPHASE"}
PAULI_OF_CALL = {"apply_X": "X", "apply_Y": "Y", "apply_Z": "Z"}
XMODES = ["zero", "mid1", "t1-", "t1", "t1+", "mid2", "t2-", "t2", "t2+", "mid3", "t3-", "t3", "t3+", "mid4", "max", "rand"]

getcontext().prec = 60


# ------------------------------------------------------------------------------------------------------
# literals
# ------------------------------------------------------------------------------------------------------
def cq(x):
    n, d = Fraction(float(x)).numerator, Fraction(float(x)).denominator
    return "(q (%d) %d)" % (n, d)


def copt_pauli(p):
    return "None" if p is None else "(Some P%s)" % p


def ncase_text(c):
    return ("{| c_noisy := %s; c_last := %s; c_now1 := %s; c_now2 := %s; c_t := %s; c_last' := %s; "
            "c_p := %s; c_p2 := %s; c_p3 := %s; c_x := %s; c_obs := %s; c_pos := %s; c_n := %d; c_num := %d; "
            "c_tin := %s; c_tout := %s |}"
            % (common.cbool(c["noisy"]), cq(c["last"]), cq(c["now1"]), cq(c["now2"]),
               "None" if c["t"] is None else "(Some %s)" % cq(c["t"]), cq(c["last_after"]),
               cq(c["p"]), cq(c["p2"]), cq(c["p3"]), cq(c["x"]), copt_pauli(c["obs"]),
               "None" if c["pos"] is None else "(Some %d%%nat)" % c["pos"], c["n"], c["num"],
               common.ctab(c["tin"]), common.ctab(c["tout"])))


def cases_text(cs):
    return (common.CASE_HEADER + "From Coq Require Import QArith.\n"
            "From SQ Require Import Base.ListUtil Stab.Pauli Stab.Kernels Stab.Tableau Noise.Decide Noise.Cases.\n"
            "Definition cases : list ncase := [\n" + ";\n".join(ncase_text(c) for c in cs) + "\n].\n"
            "Open Scope nat_scope.\nEval vm_compute in failing_ncases cases.\nEval vm_compute in boundary_ncases cases.\n")


# ------------------------------------------------------------------------------------------------------
# driving the real code
# ------------------------------------------------------------------------------------------------------
class FakeTime:
    """stands for the `time` module inside quantum.py: scripted clock reads"""

    def __init__(self):
        self.script = []
        self.reads = 0
        self.unscripted = 0
        self.idle_now = 0.0

    def time(self):
        self.reads += 1
        if not self.script:
            # a clock read the model does not know (outside the noise routine / constructor): answered with the current idle
            # instant and counted; the oracle then judges its effect on the idle clock
            self.unscripted += 1
            return self.idle_now
        return self.script.pop(0)


class FakeRandom:
    """stands for the `random` module inside quantum.py: the draw is chosen *after* the implementation computed p"""

    def __init__(self):
        self.chooser = None
        self.seen = None
        self.draws = 0
        self.np_proxy = None
        self.fallback = 0

    def random(self):
        self.draws += 1
        loc = sys._getframe(1).f_locals
        p = loc.get("p")
        t = loc.get("t")
        if p is None and self.np_proxy.exp_calls:
            # the local was renamed: fall back to the recorded exp() result (formula of the documented rate)
            p = (1 - self.np_proxy.exp_calls[-1][1]) / 4
            self.fallback += 1
        x = self.chooser(p)
        self.seen = {"p": p, "t": t, "x": x}
        return x


class NpProxy:
    def __init__(self, real):
        self._real = real
        self.exp_calls = []

    def exp(self, a):
        r = self._real.exp(a)
        self.exp_calls.append((a, r))
        return r

    def __getattr__(self, k):
        return getattr(self._real, k)


class Node:
    name = "N"


def record_engine(eng, log):
    for name in dir(eng):
        if name.startswith("apply_") or name.startswith("measure_"):
            orig = getattr(eng, name)

            def wrap(*a, _orig=orig, _name=name, **k):
                log.append((_name, a, S.arr_of(eng.qubitReg)))
                return _orig(*a, **k)
            setattr(eng, name, wrap)


def nextafter(x, up):
    return float(np.nextafter(np.float64(x), np.float64(np.inf if up else -np.inf)))


def choose_x(mode, p, rng):
    p = float(p)
    p2, p3 = 2 * p, 3 * p
    top = 1.0 - 2.0 ** -53
    v = {"zero": 0.0, "mid1": p / 2, "t1-": nextafter(p, False), "t1": p, "t1+": nextafter(p, True),
         "mid2": 1.5 * p, "t2-": nextafter(p2, False), "t2": p2, "t2+": nextafter(p2, True),
         "mid3": 2.5 * p, "t3-": nextafter(p3, False), "t3": p3, "t3+": nextafter(p3, True),
         "mid4": (p3 + 1) / 2, "max": top, "rand": rng.random()}[mode]
    return min(max(v, 0.0), top)       # random.random() returns a double in [0, 1)


def dyadic(rng, bits, scale):
    return rng.randrange(0, 2 ** bits) / float(2 ** scale)


def pick_times(rng):
    """last, t, delta as doubles with last + t and last + t + delta exactly representable (so the float
    subtraction in the code is exact and the rational model sees the same t)"""
    while True:
        kind = rng.random()
        last = rng.choice([0.0, 1.0, 1700000000.0, dyadic(rng, 30, 10)])
        if kind < 0.15:
            t = 0.0
        elif kind < 0.45:
            t = rng.choice([2.0 ** -20, 2.0 ** -10, 0.125, 0.25, 0.5, 1.0, 2.0, 3.0, 10.0, 64.0, 1000.0, 86400.0])
        else:
            t = dyadic(rng, 24, rng.choice([4, 10, 16, 20]))
        delta = rng.choice([0.0, 2.0 ** -10, 0.5])
        now1, now2 = last + t, last + t + delta
        if Fraction(now1) == Fraction(last) + Fraction(t) and Fraction(now2) == Fraction(now1) + Fraction(delta) \
                and now1 - last == t:
            return last, now1, now2


def pick_T1(rng):
    k = rng.random()
    if k < 0.4:
        return rng.choice([1.0, 0.5, 2.0, 1e-3, 1e-9, 3.7, 100.0, 1e6, 1e12, 1, 3])     # ints: JSON `"t1": 1`
    if k < 0.7:
        return rng.uniform(0.01, 10.0)
    return math.exp(rng.uniform(-20, 20))


def dec(x):
    f = Fraction(x)
    return Decimal(f.numerator) / Decimal(f.denominator)


def oracle_expected(t, T1, x):
    """the property read literally, in 60-digit arithmetic: (expected Pauli or None, p_ref, too_close)"""
    p = (Decimal(1) - (-(dec(t) / dec(T1))).exp()) / Decimal(4)
    xd = dec(x)
    thr = [p, 2 * p, 3 * p]
    # |p_impl - p_ref| <= 1e-15 is tolerated below, so a draw this close to a real threshold is judged with p_impl instead
    close = any(abs(xd - th) <= Decimal("1e-13") * th + Decimal("4e-15") for th in thr)
    if xd < thr[0]:
        e = "X"
    elif xd < thr[1]:
        e = "Y"
    elif xd < thr[2]:
        e = "Z"
    else:
        e = None
    return e, p, close


def check_axiomatic_properties_file(ctx, pid, allowed):
    """like common.check_properties_file, for the one file whose theorems may depend on the named stdlib axioms of
    Coq's Reals; every axiom Print Assumptions lists must be in `allowed` and is recorded in ctx.assumptions"""
    import re
    vf = "theories/Properties/%s.v" % pid
    ok, out = common.coqc(vf)
    ctx.obligation("Properties/%s.v compiles" % pid, ok, out)
    if not ok:
        return False
    names = re.findall(r"^\s*(?:Theorem|Lemma|Corollary)\s+(\w+)", open(os.path.join(common.COQ, vf)).read(), re.M)
    ass = common.parse_assumptions(out)
    if len(ass) != len(names):
        ctx.obligation("Print Assumptions present for every theorem of %s" % pid, False,
                       "%d theorems, %d Print Assumptions" % (len(names), len(ass)))
        return False
    allok = True
    for n, a in zip(names, ass):
        if a == "closed":
            ctx.obligation("theorem %s (closed under the global context)" % n, True)
            continue
        axs = [x for x in re.findall(r"^([A-Za-z_][\w.]*)\s*(?::|$)", a, re.M) if x != "Axioms"]
        good = bool(axs) and all(x in allowed for x in axs)
        ctx.obligation("theorem %s (depends only on named stdlib axioms: %s)" % (n, ", ".join(axs)), good, a)
        if good:
            ctx.assumptions.append("%s depends on Coq stdlib axioms: %s" % (n, ", ".join(axs)))
        allok = allok and good
    return allok


# ------------------------------------------------------------------------------------------------------
E2E_WRITER = r"""
import json, sys
from simulaqron.settings import simulaqron_settings as S
spec = json.loads(sys.argv[1])
S.default_settings()
for k, v in spec:
    setattr(S, k, v)
"""
E2E_NODE = r"""
import json
from simulaqron.settings import simulaqron_settings  # noqa
import simulaqron.virtual_node.quantum as Qm
class N: name = "n"
class R: num = 0
q = Qm.simulatedQubit(N(), R(), simNum=0, num=0)
print(json.dumps({"noisy": bool(q.noisy), "T1": q.T1}))
"""


def settings_to_noise_e2e(ctx):
    import json
    import subprocess
    import tempfile
    bad = []
    cases = [
        ("store says off, overrides disabled, override file says on", [["_read_user", False], ["noisy_qubits", False]], {"noisy_qubits": True, "t1": 0.01}, False, None),
        ("store says on with T1 = 0.5, no override file", [["noisy_qubits", True], ["t1", 0.5]], None, True, 0.5),
        ("store says off, override file says on (overrides enabled)", [["noisy_qubits", False]], {"noisy_qubits": True, "t1": 0.25}, True, 0.25),
        ("store says on, overrides disabled, override file says off", [["noisy_qubits", True], ["t1", 2.0], ["_read_user", False]], {"noisy_qubits": False}, True, 2.0),
    ]
    for what, writes, user, want_noisy, want_t1 in cases:
        home = tempfile.mkdtemp(prefix="c19e2e-", dir=ctx.home)
        env = dict(os.environ, PYTHONPATH=ctx.scratch, HOME=home, PYTHONWARNINGS="ignore")
        store = os.path.join(ctx.scratch, "simulaqron", "config", "settings.json")
        if os.path.exists(store):
            os.remove(store)
        w = subprocess.run([sys.executable, "-c", E2E_WRITER, json.dumps(writes)], env=env, cwd=home, stdout=subprocess.PIPE, stderr=subprocess.PIPE, text=True, timeout=120)
        if user is not None:
            with open(os.path.join(home, ".simulaqron.json"), "w") as f:
                json.dump(user, f)
        r = subprocess.run([sys.executable, "-c", E2E_NODE], env=env, cwd=home, stdout=subprocess.PIPE, stderr=subprocess.PIPE, text=True, timeout=120)
        ctx.count("settings_to_noise_end_to_end_cases")
        ctx.case(("e2e", what), nontrivial=True)
        if w.returncode != 0 or r.returncode != 0:
            bad.append("%s: writer / node process failed: %s" % (what, (w.stderr or r.stderr)[-200:]))
            continue
        got = json.loads(r.stdout.strip().split("\n")[-1])
        if got["noisy"] != want_noisy or (want_t1 is not None and got["T1"] != want_t1):
            bad.append("%s: a qubit created in a process started afterwards has noisy = %r, T1 = %r (expected %r, %r)" % (what, got["noisy"], got["T1"], want_noisy, want_t1))
    if os.path.exists(os.path.join(ctx.scratch, "simulaqron", "config", "settings.json")):
        os.remove(os.path.join(ctx.scratch, "simulaqron", "config", "settings.json"))
    return bad


def run(ctx):
    rng = ctx.rng
    thorough = ctx.tier == "thorough"
    ctx.trusted += [
        "translator translate/noise.py (fail-closed ast translator; `self.register.apply_P(self.num)` read as 'Pauli P at self.num')",
        "IEEE-754: a double is the rational float.as_integer_ratio() returns; `<` on doubles is rational `<`; 2*p is exact, 3*p is rounded (checked per case to 2^-53 relative)",
        "p is taken from the implementation (frame local of _apply_random_pauli_noise); numpy's exp is not modelled: the oracle recomputes it with 60-digit Decimal and requires |p_impl - p_ref| <= 1e-15",
        "harness patches the names `time`, `random`, `np` inside simulaqron.virtual_node.quantum only",
        "Coq standard-library real-number axioms for the single theorem C19_rate_range (listed under assumptions)",
    ]
    ctx.rule = ("entry point (direct call or one of the 11 operations) x noisy on/off x (last, t, T1) on a grid and at random x "
                "draw at each threshold -1ulp/exact/+1ulp, mid-interval, 0, max, random x random stabilizer state on 1..5 qubits x position; "
                "non-trivial = noisy and t > 0 (p > 0); distinct = distinct (entry, t, T1, x-mode, position, tableau)")

    common.run_translator(ctx, "noise.py", "simulaqron/virtual_node/quantum.py", "NoiseGen")
    common.run_translator(ctx, "noise_rate.py", "simulaqron/virtual_node/quantum.py", "NoiseRateGen")
    common.check_properties_file(ctx)
    check_axiomatic_properties_file(ctx, "C19_rate", common.ALLOWED_AXIOMS + ["Classical_Prop.classic"])

    # ---- the real code ------------------------------------------------------------------------------------
    from simulaqron.settings import simulaqron_settings
    import simulaqron.virtual_node.quantum as Qm
    from simulaqron.virtual_node.stabilizer_simulator import stabilizerEngine
    import simulaqron.toolbox.stabilizer_states as SS
    from simulaqron.virtual_node.basics import quantumError

    ft, fr, fnp = FakeTime(), FakeRandom(), NpProxy(np)
    Qm.time, Qm.random, Qm.np = ft, fr, fnp
    fr.np_proxy = fnp
    coin = [0]
    SS.randint = lambda a, b: coin[0]

    cases, oracle_bad, shape_bad = [], [], []
    obs_two_qubit = {"target_clock_untouched": 0, "two_qubit_ops": 0}

    def one_case(entry, noisy, T1, xmode):
        n = rng.randrange(2 if entry in OPS2 else 1, 6)
        num = rng.randrange(n)
        tin = S.tabl(O.ref_random_tableau(n, rng))
        last, now1, now2 = pick_times(rng)
        # settings through the real setters (scratch copy), read by the constructor
        simulaqron_settings.noisy_qubits = noisy
        simulaqron_settings.t1 = T1
        eng = stabilizerEngine(Node(), 0, maxQubits=10)
        eng.qubitReg = S.mk_state(tin)
        ft.script = [last]
        sq = Qm.simulatedQubit(Node(), eng, simNum=7, num=num)
        other = None
        if entry in OPS2:
            tnum = rng.choice([i for i in range(n) if i != num])
            ft.script = [last]
            other = Qm.simulatedQubit(Node(), eng, simNum=8, num=tnum)
        # things that are NOT operations on the qubit happen while it idles: lock / unlock cycles (as _remove_sim_qubit, merges and
        # the qubit lock of every virtualQubit operation do), status and numbering queries.  They must not touch the idle clock.
        ft.script = []
        ft.unscripted = 0
        ft.idle_now = last + (now1 - last) * rng.random()
        idle_events = []
        for _ in range(rng.randrange(0, 4)):
            ev = rng.choice(["lock_unlock", "isLocked", "isActive", "get_numbers", "get_details", "get_sim_number", "remote_lock_unlock"])
            idle_events.append(ev)
            if ev == "lock_unlock":
                sq.lock()
                sq.unlock()
            elif ev == "remote_lock_unlock":
                sq.remote_lock()
                sq.remote_unlock()
            elif ev == "isLocked":
                sq.remote_isLocked()
            elif ev == "isActive":
                sq.remote_isActive()
            elif ev == "get_numbers":
                sq.remote_get_numbers()
            elif ev == "get_details":
                sq.remote_get_details()
            else:
                sq.remote_get_sim_number()
        idle_touched = (sq.last_accessed != last) or ft.unscripted > 0
        ctx.count("idle_non_operations", len(idle_events))
        log = []
        record_engine(eng, log)
        ft.script = [now1, now2]
        ft.reads = 0
        fr.draws = 0
        fr.seen = None
        fr.chooser = lambda p: choose_x(xmode, p, rng)
        fnp.exp_calls = []
        coin[0] = rng.randrange(2)
        err = None
        try:
            if entry == "direct":
                sq._apply_random_pauli_noise()
            elif entry in OPS2:
                getattr(sq, entry)(tnum)
            elif entry == "remote_apply_rotation":
                sq.remote_apply_rotation((1, 0, 0), 0.3)
            else:
                getattr(sq, entry)()
        except Exception as e:       # T / rotation are refused by the stabilizer engine *after* the noise call
            err = type(e).__name__
        final = S.arr_of(eng.qubitReg)
        # split the recorded engine calls into noise part and the operation proper
        opcall = ENGINE_CALL.get(entry)
        noise_calls = log[:-1] if (opcall and log and log[-1][0] == opcall) else list(log)
        op_rec = log[-1] if (opcall and log and log[-1][0] == opcall) else None
        tout = op_rec[2] if op_rec else final          # register right after the noise routine
        d = {"entry": entry, "noisy": noisy, "T1": T1, "xmode": xmode, "n": n, "num": num, "tin": tin,
             "last": last, "now1": now1, "now2": now2, "clock_reads": ft.reads, "draws": fr.draws,
             "engine_calls": [(c[0], list(c[1])) for c in log], "error": err, "last_after": sq.last_accessed,
             "tout": tout, "final": final}
        ok_shape = True
        if len(noise_calls) > 1 or any(c[0] not in PAULI_OF_CALL or len(c[1]) != 1 for c in noise_calls):
            ok_shape = False
        if opcall and op_rec is None:
            ok_shape = False            # the operation proper was not reached
        if noise_calls and noise_calls[0][2] != tin:
            ok_shape = False
        if noisy:
            if fr.seen is None or ft.reads != 2 or fr.draws != 1 or fr.seen["p"] is None:
                ok_shape = False
                d.update({"t": None, "p": 0.0, "p2": 0.0, "p3": 0.0, "x": 0.0})
            else:
                p = fr.seen["p"]
                d.update({"t": float(fr.seen["t"]) if fr.seen["t"] is not None else now1 - last,
                          "p": float(p), "p2": float(2 * p), "p3": float(3 * p), "x": float(fr.seen["x"])})
                if fr.seen["t"] is None:
                    ctx.count("t_unobserved")
        else:
            if ft.reads != 0 or fr.draws != 0:
                ok_shape = False
            d.update({"t": None, "p": 0.0, "p2": 0.0, "p3": 0.0, "x": 0.0})
        d["obs"] = PAULI_OF_CALL.get(noise_calls[0][0]) if len(noise_calls) == 1 else None
        d["pos"] = int(noise_calls[0][1][0]) if len(noise_calls) == 1 and len(noise_calls[0][1]) == 1 else None
        if not ok_shape:
            shape_bad.append(d)
        # ---- oracle: the property, stated directly ------------------------------------------------------------
        bad = None
        d["idle_events"] = idle_events
        if idle_touched:
            bad = ("the idle clock was read / restarted by something that is not an operation on the qubit (%s): last_accessed %r -> restarted, "
                   "%d clock reads" % (", ".join(idle_events), last, ft.unscripted))
        elif not noisy:
            # idle time never changes any state: nothing applied, and the operation equals the bare engine call
            if noise_calls or tout != tin or sq.last_accessed != last:
                bad = "noise off but the register / idle clock changed"
        else:
            t = now1 - last
            exp_pauli, p_ref, close = oracle_expected(t, T1, d["x"])
            if abs(dec(d["p"]) - p_ref) > Decimal("1e-15"):
                bad = "rate used (%r) is not (1-exp(-t/T1))/4 = %s" % (d["p"], str(p_ref)[:22])
            elif not close and d["obs"] != exp_pauli:
                bad = "applied %r, the documented intervals give %r" % (d["obs"], exp_pauli)
            elif close:
                # at the thresholds: the same three intervals, exact rational arithmetic on the rate actually used
                fp, fx = Fraction(d["p"]), Fraction(d["x"])
                e2 = "X" if fx < fp else "Y" if fx < 2 * fp else "Z" if fx < 3 * fp else None
                if fx == Fraction(d["p3"]) and Fraction(d["p3"]) < 3 * fp:
                    ctx.count("oracle_skipped_draw_equals_rounded_3p")
                elif d["obs"] != e2:
                    bad = "applied %r, the intervals [0,p) [p,2p) [2p,3p) for the rate used give %r" % (d["obs"], e2)
                ctx.count("oracle_threshold_cases_judged_with_p_impl")
            if bad is None and d["obs"] is not None:
                if d["pos"] != num:
                    bad = "Pauli applied at position %r, the qubit is at %d" % (d["pos"], num)
                elif not S.oracle_gate(tin, n, d["obs"], (num,), tout):
                    bad = "register after the noise is not %s on qubit %d of the input state" % (d["obs"], num)
            if bad is None and d["obs"] is None and tout != tin:
                bad = "nothing was to be applied but the register changed"
            if bad is None and not (now1 <= sq.last_accessed <= now2):
                bad = "idle clock not restarted at the operation (last_accessed = %r, operation at %r..%r)" % (sq.last_accessed, now1, now2)
        if bad is None and op_rec is not None and entry not in ("remote_apply_T", "remote_apply_rotation"):
            # the operation proper acts on the post-noise state exactly as the bare engine call does
            ref = stabilizerEngine(Node(), 0, maxQubits=10)
            ref.qubitReg = S.mk_state(tout) if len(tout) else SS.StabilizerState()
            try:
                getattr(ref, opcall)(*op_rec[1])
                if S.arr_of(ref.qubitReg) != final:
                    bad = "operation result differs from the bare engine call on the post-noise state"
            except quantumError:
                pass
        if bad:
            d["oracle"] = bad
            oracle_bad.append(d)
        if other is not None:
            obs_two_qubit["two_qubit_ops"] += 1
            if other.last_accessed == last:
                obs_two_qubit["target_clock_untouched"] += 1
        cases.append(d)
        ctx.case((entry, d["t"], T1, xmode, num, str(tin)), nontrivial=bool(noisy and d["t"]))
        ctx.count("entry_" + entry)
        ctx.count("applied_%s" % d["obs"])
        ctx.count("xmode_" + xmode)
        return d

    entries = ["direct"] + OPS1 + OPS2
    reps = 6 if thorough else 1
    # every entry point x every draw position, noise on
    for _ in range(reps):
        for e in entries:
            for xm in XMODES:
                one_case(e, True, pick_T1(rng), xm)
    # noise off: every entry point, huge and zero idle times
    for _ in range(3 * reps):
        for e in entries:
            one_case(e, False, pick_T1(rng), rng.choice(XMODES))
    # grid t x T1 on the direct entry, all threshold positions
    for _ in range(reps):
        for T1 in [1e-3, 0.5, 1.0, 3.7, 1000.0]:
            for xm in XMODES:
                one_case("direct", True, T1, xm)
    # random
    for _ in range(12000 if thorough else 1200):
        one_case(rng.choice(entries), rng.random() < 0.9, pick_T1(rng), rng.choice(XMODES))

    for c in cases[:2] + cases[-2:]:
        ctx.sample({k: c[k] for k in ("entry", "noisy", "T1", "last", "now1", "now2", "t", "p", "x", "xmode", "obs", "pos", "n", "num", "engine_calls")})

    # ---- Coq decides agreement with the model ------------------------------------------------------------------
    shard = 300
    shards = [cases[i:i + shard] for i in range(0, len(cases), shard)]
    res = common.coq_eval_many([cases_text(sh) for sh in shards])
    failing, boundary, evalok = [], 0, True
    for sh, (ok, out) in zip(shards, res):
        lists = common.parse_nat_lists(out) if ok else []
        if not ok or len(lists) != 2:
            ctx.obligation("correspondence noise cases evaluate in Coq", False, out)
            evalok = False
            continue
        failing += [sh[i] for i in lists[0]]
        boundary += len(lists[1])
    ctx.coverage["rounding_boundary_cases(x = fl(3p) < 3p)"] = boundary
    ctx.obligation("correspondence: real _apply_random_pauli_noise = Noise.Decide (decision, idle clock, position, tableau) on %d cases" % len(cases),
                   evalok and not failing, "first disagreement: %r" % (failing[:1],))
    ctx.obligation("call shape: at most one Pauli call, before the operation proper, two clock reads and one draw iff noisy (%d cases)" % len(cases),
                   not shape_bad, repr(shape_bad[:1]))
    ctx.obligation("oracle (60-digit rate, real intervals, matrix conjugation, bare operation) agrees with the implementation",
                   not oracle_bad, repr(oracle_bad[:1]))
    ctx.count("oracle_disagreements", len(oracle_bad))
    if fr.fallback:
        ctx.coverage["p_recovered_from_exp_result(local `p` renamed)"] = fr.fallback
    ctx.coverage["observation_two_qubit_gates"] = (
        "informational, not a violation: in remote_cnot_onto / remote_cphase_onto only the control's idle clock is consulted; "
        "the target's last_accessed stayed untouched in %d of %d two-qubit operations" % (obs_two_qubit["target_clock_untouched"], obs_two_qubit["two_qubit_ops"]))
    ctx.coverage["observation_clock"] = ("informational: t uses the first clock read, last_accessed the second; "
                                         "time passing between the two reads is never counted as idle time")

    # ---- end to end: the setting a launching program wrote decides whether a node process started LATER applies noise (and at which T1) ------
    e2e_bad = settings_to_noise_e2e(ctx)
    ctx.obligation("a simulated qubit created in a freshly started process is noisy iff the stored settings (and the override file only while _read_user is on) "
                   "say so, with the stored T1", not e2e_bad, "; ".join(e2e_bad)[:600])

    # ---- verdict ---------------------------------------------------------------------------------------------------
    if e2e_bad:
        ctx.report("oracle:settings-to-noise", "noise: " + e2e_bad[0], {"problems": e2e_bad}, True)

    def slim(d):
        return {k: d[k] for k in d if k not in ("final",)}
    if oracle_bad:
        d = min(oracle_bad, key=lambda x: (x["n"], len(str(x["tin"]))))
        ctx.report("oracle:" + d["oracle"].split(",")[0][:40], "noise: " + d["oracle"], slim(d), True)
    elif shape_bad:
        d = min(shape_bad, key=lambda x: (x["n"], len(str(x["tin"]))))
        ctx.report("shape:" + d["entry"], "noise routine call shape violated (not exactly one optional Pauli before the operation)", slim(d), True)
    elif ctx.broken() and not e2e_bad:
        ctx.report("broken:" + ";".join(ctx.broken()), "proof obligation / correspondence no longer checks: " + "; ".join(ctx.broken()),
                   {"broken": ctx.broken(), "first_disagreement": [slim(f) for f in failing[:1]]}, found_input=False)
