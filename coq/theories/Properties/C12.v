(* C12 — the configured topology decides who may generate entanglement with whom (decision part).
   Only statements, each closed by `exact`, each followed by Print Assumptions.  Model: Qasm/Topo.v
   (is_adjacent of factory.py:220-243, the three refusals of cmd_epr executioner.py:390-406 in the code's order);
   proofs: Qasm/TopoFacts.v.  The end-to-end clause "a refused request creates no qubits anywhere" is stated on the
   NetQASM model and added with the NetQASM harness; here it is reduced to "cmd_epr leaves before its first cmd_new",
   which is what epr_check <> Create means (order regenerated from the source: Gen/AdjacentGen.gen_epr_order_ok). *)
From Coq Require Import List String Bool.
From SQ Require Import Base.ListUtil Qasm.Topo Qasm.TopoFacts.
Import ListNotations.
Local Open Scope string_scope.

(* a request from `self` towards `r` is served iff r is a known node, r is not self, and either no topology is
   configured or the topology lists r among self's neighbours (a node absent from the topology has none) *)
Theorem C12_may_create_iff : forall topo known self r,
  may_create topo known self r = true <->
  In r known /\ r <> self /\ (topo = None \/ exists l, neighbours topo self = Some l /\ In r l).
Proof. exact may_create_iff. Qed.
Print Assumptions C12_may_create_iff.

Theorem C12_is_adjacent_iff : forall topo self r,
  is_adjacent topo self r = true <-> topo = None \/ exists l, neighbours topo self = Some l /\ In r l.
Proof. exact is_adjacent_iff. Qed.
Print Assumptions C12_is_adjacent_iff.

(* which refusal is given, in the code's order: unknown id, then self, then adjacency; creation only after all three *)
Theorem C12_refusals : forall topo known self r,
  (epr_check topo known self r = RefuseUnknown <-> ~ In r known) /\
  (epr_check topo known self r = RefuseSelf <-> In r known /\ r = self) /\
  (epr_check topo known self r = RefuseNotAdjacent <-> In r known /\ r <> self /\ is_adjacent topo self r = false) /\
  (epr_check topo known self r = Create <-> may_create topo known self r = true).
Proof. exact epr_check_spec. Qed.
Print Assumptions C12_refusals.

(* "every other node when no topology is configured" *)
Theorem C12_no_topology_everyone_else : forall known self r,
  may_create None known self r = true <-> In r known /\ r <> self.
Proof. exact may_create_no_topology. Qed.
Print Assumptions C12_no_topology_everyone_else.

(* directed reading: only the requesting node's own row decides; rows of other nodes never grant or revoke anything for it *)
Theorem C12_only_own_row_decides : forall t1 t2 known self r,
  assoc t1 self = assoc t2 self ->
  epr_check (Some t1) known self r = epr_check (Some t2) known self r.
Proof. exact epr_check_only_own_row. Qed.
Print Assumptions C12_only_own_row_decides.

(* a configured topology only restricts the fully connected default *)
Theorem C12_topology_only_restricts : forall t known self r,
  may_create (Some t) known self r = true -> may_create None known self r = true.
Proof. exact may_create_topology_restricts. Qed.
Print Assumptions C12_topology_only_restricts.
