(* Correspondence cases for Model Z: harness/props/c19.py writes lists of these (inputs together with what the
   real `_apply_random_pauli_noise` did on a real stabilizerEngine) and Coq decides agreement by vm_compute. *)
From Coq Require Import QArith ZArith Bool List String.
From SQ Require Import Base.ListUtil Stab.Pauli Stab.Kernels Stab.Tableau Noise.Decide.
Import ListNotations.

(* numbers arrive as (numerator, denominator) of float.as_integer_ratio() *)
Definition q (n : Z) (d : positive) : Q := Qmake n d.

Record ncase := {
  c_noisy : bool;
  c_last : Q; c_now1 : Q; c_now2 : Q;
  c_t : option Q;            (* t as computed by the implementation (None when the noise path returned early) *)
  c_last' : Q;               (* last_accessed afterwards *)
  c_p : Q; c_p2 : Q; c_p3 : Q;   (* p from the implementation, 2*p and 3*p as IEEE products *)
  c_x : Q;
  c_obs : option pauli;      (* which engine method was called by the noise routine (at most one call) *)
  c_pos : option nat;        (* the position argument of that call *)
  c_n : nat; c_num : nat;
  c_tin : tab; c_tout : tab
}.

Definition optQ_eqb (a b : option Q) : bool :=
  match a, b with
  | None, None => true
  | Some x, Some y => Qeq_bool x y
  | _, _ => false
  end.

Definition Qabs' (a : Q) : Q := if Qltb a 0 then - a else a.

(* IEEE round-to-nearest of 3*p: relative error at most 2^-53; 2*p is exact *)
Definition ulp_bound : Q := Qmake 1 (2 ^ 53).
Definition products_ok (c : ncase) : bool :=
  Qeq_bool (c_p2 c) (2 * c_p c) &&
  Qleb (Qabs' (c_p3 c - 3 * c_p c)) (3 * Qabs' (c_p c) * ulp_bound).

(* the one draw on which the rounded product 3*p and the real 3p can disagree: x = fl(3p) < 3p *)
Definition rounding_boundary (c : ncase) : bool :=
  negb (opt_pauli_eqb (decide_thr (c_noisy c) (c_p c) (c_p2 c) (c_p3 c) (c_x c))
                      (decide (c_noisy c) (c_p c) (c_x c))).

Definition pos_ok (c : ncase) : bool :=
  match c_obs c, c_pos c with
  | Some _, Some k => Nat.eqb k (c_num c)
  | None, None => true
  | _, _ => false
  end.

Definition check_ncase (c : ncase) : bool :=
  let '(t, l') := idle_update (c_noisy c) (c_last c) (c_now1 c) (c_now2 c) in
  optQ_eqb t (c_t c) && Qeq_bool l' (c_last' c) &&
  products_ok c &&
  opt_pauli_eqb (decide_thr (c_noisy c) (c_p c) (c_p2 c) (c_p3 c) (c_x c)) (c_obs c) &&
  pos_ok c &&
  (rounding_boundary c || opt_pauli_eqb (decide (c_noisy c) (c_p c) (c_x c)) (c_obs c)) &&
  tab_eqb (apply_noise (c_obs c) (c_n c) (c_num c) (c_tin c)) (c_tout c) &&
  (rounding_boundary c ||
   tab_eqb (noise_step (c_noisy c) (c_p c) (c_x c) (c_n c) (c_num c) (c_tin c)) (c_tout c)).

Definition failing_ncases (l : list ncase) : list nat := failing (map check_ncase l).
Definition boundary_ncases (l : list ncase) : list nat := failing (map (fun c => negb (rounding_boundary c)) l).
