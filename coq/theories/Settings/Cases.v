(* Correspondence cases for Model P: harness/props/c18.py writes one `hist` per history (initial files, the
   implementation's default dictionary, and after every operation the acting process's cache and the store
   file as the real code left them); Coq replays the history on the model and reports the first step at
   which they differ (0 = none, i+1 = step i). *)
From Coq Require Import List String ZArith Bool Arith.
From SQ Require Import Base.ListUtil Settings.Model.
Import ListNotations.

Record obs := {
  o_op : op;
  o_pid : pid;                   (* whose cache was dumped after the operation *)
  o_cache : option dict;         (* None: that process does not exist (any more) *)
  o_store : option dict
}.

Record hist := {
  h_dflt : dict;
  h_store : option dict;
  h_user : option dict;
  h_steps : list obs
}.

Fixpoint first_bad (dflt : dict) (s : state) (steps : list obs) (i : nat) : nat :=
  match steps with
  | [] => 0
  | o :: t =>
      let s' := step dflt s (o_op o) in
      if optdict_eqb (cache_of (procs s') (o_pid o)) (o_cache o) && optdict_eqb (store s') (o_store o)
      then first_bad dflt s' t (S i) else S i
  end.

Definition check_hist (h : hist) : nat :=
  first_bad (h_dflt h) (init (h_store h) (h_user h)) (h_steps h) 0.

Definition hist_disciplined (h : hist) : nat :=
  if disciplined (h_dflt h) (init (h_store h) (h_user h)) (map o_op (h_steps h)) then 1 else 0.
