(* Model V: sequential semantics of the virtual-node network (simulaqron/virtual_node/virtual.py, quantum.py,
   stabilizer_simulator.py), one native operation at a time, all locks free between operations.
   Faithful to the code's own list orders (virtQubits, simQubits, registers by number), its id allocation
   (smallest unused virtual / simulated id, monotone register numbers) and its seven two-qubit placement cases.
   Object identity: a held qubit (virtualQubit object) carries a ghost handle id v_hid, allocated whenever the
   code constructs a virtualQubit; a handle is stale iff no node lists a qubit with that id.  A simulated qubit
   is named by (simulating node, simNum): live virtual qubits only ever reference live simulated qubits
   (invariant, Net/Inv.v), so no heap of zombie objects is needed for the repaired code. *)
From Coq Require Import List Bool Arith Lia.
From SQ Require Import Base.ListUtil Stab.Pauli Stab.Kernels Stab.Tableau.
Import ListNotations.

(* v_qid, r_ids are GHOST: the identity of the physical qubit (= handle id of the virtualQubit created with it) carried by a held
   qubit, and the identities sitting at positions 0..k-1 of a register.  They are never read by `step`'s control flow and are
   erased by the dump; they exist to state C01/C02. *)
Record vq := mkVq { v_hid : nat; v_num : nat; v_simNode : nat; v_simNum : nat; v_qid : nat }.
Record sq := mkSq { s_simNum : nat; s_reg : nat; s_pos : nat }.
Record reg := mkReg { r_num : nat; r_max : nat; r_n : nat; r_tab : tab; r_ids : list nat }.
Record node := mkNode { virt : list vq; sims : list sq; regs : list reg;
                        numRegs : nat; nextReg : nat; maxQ : nat; maxR : nat }.
Record net := mkNet { nodes : list node; next_hid : nat }.

Inductive g1 := NX | NY | NZ | NH | NK | NT | NRot
  | NS.   (* remote_apply_S: present since the D7 repair (fix: apply_S plumbed through the virtual node) *)
Inductive g2 := NCnot | NCphase.
Inductive op :=
| ONew (n : nat)
| OGate1 (h : nat) (g : g1)
| OGate2 (h1 h2 : nat) (g : g2)
| OSend (h : nat) (target : nat)
| OMeas (h : nat) (inplace coin : bool)
| ONewReg (n : nat) (maxq : nat)              (* remote_add_register(maxQubits=maxq) at node n: a new EMPTY register *)
| ONewInReg (n : nat) (owner : nat) (k : nat). (* remote_new_qubit_inreg(reg) at node n, reg = register number k of node `owner` *)
Inductive kind := KNoQubit | KQuantum | KVirtNet | KUnsupported | KValue
  | KCrash.   (* never produced by the model: an undocumented exception / hang of the implementation *)
Inductive out := Ok (v : nat) | OkNone | Ignored | Err (k : kind).

Definition empty_node (mq mr : nat) : node := mkNode [] [] [] 0 0 mq mr.
Definition init_net (caps : list (nat * nat)) : net :=
  mkNet (map (fun c => empty_node (fst c) (snd c)) caps) 0.

(* ---- small helpers ---------------------------------------------------------------------------- *)
Definition mem_nat (x : nat) (l : list nat) : bool := existsb (Nat.eqb x) l.

(* get_virtual_id / get_sim_id: smallest j in 0..len not used *)
Fixpoint first_free_from (fuel j : nat) (used : list nat) : nat :=
  match fuel with
  | O => j
  | S f => if mem_nat j used then first_free_from f (S j) used else j
  end.
Definition fresh_id (used : list nat) : nat := first_free_from (length used) 0 used.

Definition nth_node (s : net) (i : nat) : node := nth i (nodes s) (empty_node 0 0).
Definition set_node (s : net) (i : nat) (nd : node) : net := mkNet (upd (nodes s) i nd) (next_hid s).

Definition with_virt (nd : node) (v : list vq) : node :=
  mkNode v (sims nd) (regs nd) (numRegs nd) (nextReg nd) (maxQ nd) (maxR nd).
Definition with_sims (nd : node) (x : list sq) : node :=
  mkNode (virt nd) x (regs nd) (numRegs nd) (nextReg nd) (maxQ nd) (maxR nd).
Definition with_regs (nd : node) (x : list reg) (nr : nat) : node :=
  mkNode (virt nd) (sims nd) x nr (nextReg nd) (maxQ nd) (maxR nd).

Fixpoint find_vq (h : nat) (l : list vq) : option vq :=
  match l with
  | [] => None
  | q :: t => if Nat.eqb (v_hid q) h then Some q else find_vq h t
  end.
Fixpoint find_handle_from (i : nat) (h : nat) (l : list node) : option (nat * vq) :=
  match l with
  | [] => None
  | nd :: t => match find_vq h (virt nd) with
               | Some q => Some (i, q)
               | None => find_handle_from (S i) h t
               end
  end.
Definition find_handle (s : net) (h : nat) : option (nat * vq) := find_handle_from 0 h (nodes s).

Fixpoint find_sq (k : nat) (l : list sq) : option sq :=
  match l with
  | [] => None
  | x :: t => if Nat.eqb (s_simNum x) k then Some x else find_sq k t
  end.
Fixpoint find_reg (k : nat) (l : list reg) : option reg :=
  match l with
  | [] => None
  | x :: t => if Nat.eqb (r_num x) k then Some x else find_reg k t
  end.
Definition set_reg (l : list reg) (r : reg) : list reg :=
  map (fun x => if Nat.eqb (r_num x) (r_num r) then r else x) l.
Definition del_reg (l : list reg) (k : nat) : list reg :=
  filter (fun x => negb (Nat.eqb (r_num x) k)) l.

Definition remove_vq (h : nat) (l : list vq) : list vq := filter (fun q => negb (Nat.eqb (v_hid q) h)) l.

(* ---- engine calls (stabilizer backend) --------------------------------------------------------- *)
Definition gate1_of (g : g1) : option gate1 :=
  match g with NX => Some GX | NY => Some GY | NZ => Some GZ | NH => Some GH | NK => Some GK | NS => Some GS
             | NT | NRot => None end.
Definition gate2_of (g : g2) : gate2 := match g with NCnot => GCNOT | NCphase => GCZ end.

Definition reg_with_tab (r : reg) (n : nat) (t : tab) : reg := mkReg (r_num r) (r_max r) n t (r_ids r).
Definition reg_with_ids (r : reg) (ids : list nat) : reg := mkReg (r_num r) (r_max r) (r_n r) (r_tab r) ids.
Fixpoint remove_nth {A} (i : nat) (l : list A) : list A :=
  match l, i with
  | [], _ => []
  | _ :: t, 0 => t
  | a :: t, S j => a :: remove_nth j t
  end.

(* remote_new_register: numRegs limit, monotone number, maxQubits default 10 *)
Definition add_register (nd : node) : option (node * reg) :=
  if Nat.leb (maxR nd) (numRegs nd) then None
  else let r := mkReg (nextReg nd) 10 0 [] [] in
       Some (mkNode (virt nd) (sims nd) (regs nd ++ [r]) (S (numRegs nd)) (S (nextReg nd)) (maxQ nd) (maxR nd), r).

(* remote_add_register(ignore_max_registers=True): the temporary register of a both-remote merge *)
Definition add_register_force (nd : node) : node * reg :=
  let r := mkReg (nextReg nd) 10 0 [] [] in
  (mkNode (virt nd) (sims nd) (regs nd ++ [r]) (S (numRegs nd)) (S (nextReg nd)) (maxQ nd) (maxR nd), r).

(* ---- creation ----------------------------------------------------------------------------------- *)
Definition op_new (s : net) (i : nat) : net * out :=
  let nd := nth_node s i in
  if Nat.leb (maxQ nd) (length (virt nd)) then (s, Err KNoQubit)
  else match add_register nd with
       | None => (s, Err KQuantum)
       | Some (nd1, r) =>
           let simNum := fresh_id (map s_simNum (sims nd)) in
           let r1 := reg_with_ids (reg_with_tab r 1 (add_qubit 0 [])) [next_hid s] in
           let nd2 := with_regs nd1 (set_reg (regs nd1) r1) (numRegs nd1) in
           let nd3 := with_sims nd2 (sims nd2 ++ [mkSq simNum (r_num r) 0]) in
           let newNum := fresh_id (map v_num (virt nd3)) in
           let nd4 := with_virt nd3 (virt nd3 ++ [mkVq (next_hid s) newNum i simNum (next_hid s)]) in
           (mkNet (upd (nodes s) i nd4) (S (next_hid s)), Ok newNum)
       end.

(* ---- client-made registers ---------------------------------------------------------------------- *)
(* remote_add_register(maxQubits=mq) -> remote_new_register: refused at the register limit, otherwise an EMPTY register
   with the next (monotone) number and capacity mq is stored; the register object is returned (named here by its number) *)
Definition op_newreg (s : net) (i mq : nat) : net * out :=
  let nd := nth_node s i in
  if Nat.leb (maxR nd) (numRegs nd) then (s, Err KQuantum)
  else let r := mkReg (nextReg nd) mq 0 [] [] in
       (set_node s i (mkNode (virt nd) (sims nd) (regs nd ++ [r]) (S (numRegs nd)) (S (nextReg nd)) (maxQ nd) (maxR nd)),
        Ok (nextReg nd)).

(* remote_new_qubit_inreg(reg) at node i, reg = register k of node `owner`.
   reg.simNode != myID is refused before any lock; the held-qubit limit is checked under the node lock; then
   simulatedQubit.make_fresh -> engine.add_fresh_qubit raises noQubitError when the register holds r_max qubits already
   (nothing was changed yet: get_sim_id only reads).  The code never checks that `reg` is (still) one of the node's
   registers: a client that keeps a register object after its last qubit was measured out (remote_delete_register) or
   after it was absorbed by a merge gets a qubit in an engine the node no longer lists.  That input is outside the
   model (answered Ignored, state unchanged, like the other inputs the harness never generates). *)
Definition op_new_inreg (s : net) (i owner k : nat) : net * out :=
  if negb (Nat.eqb owner i) then (s, Err KQuantum)
  else
    let nd := nth_node s i in
    if Nat.leb (maxQ nd) (length (virt nd)) then (s, Err KNoQubit)
    else match find_reg k (regs nd) with
         | None => (s, Ignored)                      (* not generated: register object no longer listed by the node *)
         | Some r =>
             if Nat.leb (r_max r) (r_n r) then (s, Err KNoQubit)
             else
               let simNum := fresh_id (map s_simNum (sims nd)) in
               let r1 := reg_with_ids (reg_with_tab r (S (r_n r)) (add_qubit (r_n r) (r_tab r))) (r_ids r ++ [next_hid s]) in
               let nd2 := with_regs nd (set_reg (regs nd) r1) (numRegs nd) in
               let nd3 := with_sims nd2 (sims nd2 ++ [mkSq simNum k (r_n r)]) in
               let newNum := fresh_id (map v_num (virt nd3)) in
               let nd4 := with_virt nd3 (virt nd3 ++ [mkVq (next_hid s) newNum i simNum (next_hid s)]) in
               (mkNet (upd (nodes s) i nd4) (S (next_hid s)), Ok newNum)
         end.

(* ---- single-qubit gate -------------------------------------------------------------------------- *)
Definition locate (s : net) (q : vq) : option (sq * reg) :=
  let sn := nth_node s (v_simNode q) in
  match find_sq (v_simNum q) (sims sn) with
  | None => None
  | Some x => match find_reg (s_reg x) (regs sn) with
              | None => None
              | Some r => Some (x, r)
              end
  end.

Definition update_reg_at (s : net) (ni : nat) (r : reg) : net :=
  let sn := nth_node s ni in
  set_node s ni (with_regs sn (set_reg (regs sn) r) (numRegs sn)).

Definition op_gate1 (s : net) (h : nat) (g : g1) : net * out :=
  match find_handle s h with
  | None => (s, Ignored)
  | Some (_, q) =>
      match locate s q with
      | None => (s, Ignored)                       (* unreachable under Inv *)
      | Some (x, r) =>
          match gate1_of g with
          | None => (s, Err KUnsupported)
          | Some gg => (update_reg_at s (v_simNode q) (reg_with_tab r (r_n r) (tab_gate1 gg (r_n r) (s_pos x) (r_tab r))), OkNone)
          end
      end
  end.

(* ---- measurement ---------------------------------------------------------------------------------- *)
(* _remove_sim_qubit at node ni for sim qubit x in register r (already measured in place) *)
Definition remove_sim (s : net) (ni : nat) (x : sq) (r : reg) (coin : bool) : net :=
  let sn := nth_node s ni in
  let '(_, n', t') := measure (r_n r) (s_pos x) false coin (r_tab r) in
  let r' := reg_with_ids (reg_with_tab r n' t') (remove_nth (s_pos x) (r_ids r)) in
  let sn1 :=
    if Nat.eqb n' 0 then
      mkNode (virt sn) (sims sn) (del_reg (regs sn) (r_num r)) (numRegs sn - 1) (nextReg sn) (maxQ sn) (maxR sn)
    else
      mkNode (virt sn)
             (map (fun y => if Nat.eqb (s_reg y) (r_num r) && Nat.ltb (s_pos x) (s_pos y)
                            then mkSq (s_simNum y) (s_reg y) (s_pos y - 1) else y) (sims sn))
             (set_reg (regs sn) r') (numRegs sn) (nextReg sn) (maxQ sn) (maxR sn) in
  set_node s ni (with_sims sn1 (filter (fun y => negb (Nat.eqb (s_simNum y) (s_simNum x))) (sims sn1))).

Definition op_meas (s : net) (h : nat) (inplace coin : bool) : net * out :=
  match find_handle s h with
  | None => (s, Ignored)
  | Some (vi, q) =>
      match locate s q with
      | None => (s, Ignored)
      | Some (x, r) =>
          let '(o, n1, t1) := measure (r_n r) (s_pos x) true coin (r_tab r) in
          let r1 := reg_with_tab r n1 t1 in
          let s1 := update_reg_at s (v_simNode q) r1 in
          if inplace then (s1, Ok (if o then 1 else 0))
          else
            let s2 := remove_sim s1 (v_simNode q) x r1 coin in
            let vn := nth_node s2 vi in
            (set_node s2 vi (with_virt vn (remove_vq h (virt vn))), Ok (if o then 1 else 0))
      end
  end.

(* ---- send ------------------------------------------------------------------------------------------- *)
(* remote_add_qubit at node ti: new virtual qubit backed by (simNode, simNum) *)
Definition op_send (s : net) (h : nat) (ti : nat) : net * out :=
  match find_handle s h with
  | None => (s, Ignored)
  | Some (vi, q) =>
      if Nat.leb (length (nodes s)) ti then (s, Err KVirtNet)
      else
        let tn := nth_node s ti in
        if Nat.leb (maxQ tn) (length (virt tn)) then (s, Err KNoQubit)
        else
          let newNum := fresh_id (map v_num (virt tn)) in
          let tn1 := with_virt tn (virt tn ++ [mkVq (next_hid s) newNum (v_simNode q) (v_simNum q) (v_qid q)]) in
          let s1 := mkNet (upd (nodes s) ti tn1) (S (next_hid s)) in
          let vn := nth_node s1 vi in
          (set_node s1 vi (with_virt vn (remove_vq h (virt vn))), Ok newNum)
  end.

(* ---- register merges -------------------------------------------------------------------------------- *)
(* local_merge_regs at node ni: register k1 absorbs register k2 (k1 <> k2) *)
Definition local_merge (s : net) (ni k1 k2 : nat) : net :=
  let nd := nth_node s ni in
  match find_reg k1 (regs nd), find_reg k2 (regs nd) with
  | Some r1, Some r2 =>
      let off := r_n r1 in
      let r1' := mkReg (r_num r1) (r_max r1 + r_n r2) (r_n r1 + r_n r2) (tensor (r_n r1) (r_tab r1) (r_n r2) (r_tab r2)) (r_ids r1 ++ r_ids r2) in
      let sims' := map (fun y => if Nat.eqb (s_reg y) k2 then mkSq (s_simNum y) k1 (s_pos y + off) else y) (sims nd) in
      set_node s ni (mkNode (virt nd) sims' (del_reg (set_reg (regs nd) r1') k2) (numRegs nd - 1) (nextReg nd) (maxQ nd) (maxR nd))
  | _, _ => s
  end.

(* allocate `cnt` new simulated qubits in register k at positions off, off+1, ... ; returns their simNums in order *)
Fixpoint alloc_sims (cnt : nat) (k off : nat) (l : list sq) : list sq * list nat :=
  match cnt with
  | O => (l, [])
  | S c =>
      let id := fresh_id (map s_simNum l) in
      let '(l', ids) := alloc_sims c k (S off) (l ++ [mkSq id k off]) in
      (l', id :: ids)
  end.

(* remote_merge_from at node li: pull the register of (oi, simNum) into local register lk.
   returns the new net and the new simNum of the pulled qubit *)
Definition merge_from (s : net) (li oi : nat) (simNum : nat) (lk : nat) : net * nat :=
  let on := nth_node s oi in
  match find_sq simNum (sims on) with
  | None => (s, 0)
  | Some x =>
    match find_reg (s_reg x) (regs on) with
    | None => (s, 0)
    | Some orr =>
      (* get_register_del *)
      let moved := filter (fun y => Nat.eqb (s_reg y) (r_num orr)) (sims on) in
      let on1 := mkNode (virt on) (filter (fun y => negb (Nat.eqb (s_reg y) (r_num orr))) (sims on))
                        (del_reg (regs on) (r_num orr)) (numRegs on - 1) (nextReg on) (maxQ on) (maxR on) in
      let s1 := set_node s oi on1 in
      let ln := nth_node s1 li in
      match find_reg lk (regs ln) with
      | None => (s, 0)
      | Some lr =>
        let off := r_n lr in
        let lr' := mkReg (r_num lr) (r_max lr + r_n orr) (r_n lr + r_n orr)
                         (tensor (r_n lr) (r_tab lr) (r_n orr) (r_tab orr)) (r_ids lr ++ r_ids orr) in
        let '(sims', ids) := alloc_sims (r_n orr) lk off (sims ln) in
        let ln1 := mkNode (virt ln) sims' (set_reg (regs ln) lr') (numRegs ln) (nextReg ln) (maxQ ln) (maxR ln) in
        let s2 := set_node s1 li ln1 in
        (* update_virtual_merge on every node: re-point virtual qubits backed by a moved simulated qubit *)
        let repoint (q : vq) : vq :=
          if Nat.eqb (v_simNode q) oi then
            match find_sq (v_simNum q) moved with
            | Some y => mkVq (v_hid q) (v_num q) li (nth (s_pos y) ids 0) (v_qid q)
            | None => q
            end
          else q in
        let s3 := mkNet (map (fun nd => with_virt nd (map repoint (virt nd))) (nodes s2)) (next_hid s2) in
        (s3, nth (s_pos x) ids 0)
      end
    end
  end.

Definition apply_gate2_at (s : net) (ni : nat) (k : nat) (g : g2) (c t : nat) : net :=
  let nd := nth_node s ni in
  match find_reg k (regs nd) with
  | None => s
  | Some r => update_reg_at s ni (reg_with_tab r (r_n r) (tab_gate2 (gate2_of g) (r_n r) c t (r_tab r)))
  end.

Definition pos_of (s : net) (ni simNum : nat) : nat * nat :=   (* (register, position) *)
  match find_sq simNum (sims (nth_node s ni)) with
  | Some x => (s_reg x, s_pos x)
  | None => (0, 0)
  end.

(* _two_qubit_gate: the seven placement cases *)
Definition op_gate2 (s : net) (h1 h2 : nat) (g : g2) : net * out :=
  match find_handle s h1, find_handle s h2 with
  | Some (vi, q1), Some (vi2, q2) =>
      if negb (Nat.eqb vi vi2) then (s, Ignored)      (* not generated: both qubits must be held by one node *)
      else
      if Nat.eqb (v_simNode q1) (v_simNode q2) then
        let sn := v_simNode q1 in
        let '(k1, p1) := pos_of s sn (v_simNum q1) in
        let '(k2, p2) := pos_of s sn (v_simNum q2) in
        if Nat.eqb k1 k2 then
          (* cases 1 (local) and 3 (remote), same register: just the gate *)
          if Nat.eqb p1 p2 then (s, Err KValue)
          else (apply_gate2_at s sn k1 g p1 p2, OkNone)
        else
          (* cases 2 (local) and 4 (remote), different registers on one node: local_merge_regs there *)
          let s1 := local_merge s sn k1 k2 in
          let '(_, p1') := pos_of s1 sn (v_simNum q1) in
          let '(_, p2') := pos_of s1 sn (v_simNum q2) in
          (apply_gate2_at s1 sn k1 g p1' p2', OkNone)
      else if Nat.eqb (v_simNode q1) vi then
        (* case 5: control local, pull the target's register here *)
        let '(k1, _) := pos_of s vi (v_simNum q1) in
        let '(s1, newT) := merge_from s vi (v_simNode q2) (v_simNum q2) k1 in
        let '(_, p1) := pos_of s1 vi (v_simNum q1) in
        let '(_, p2) := pos_of s1 vi newT in
        (apply_gate2_at s1 vi k1 g p1 p2, OkNone)
      else if Nat.eqb (v_simNode q2) vi then
        (* case 6: target local, pull the control's register here *)
        let '(k2, _) := pos_of s vi (v_simNum q2) in
        let '(s1, newC) := merge_from s vi (v_simNode q1) (v_simNum q1) k2 in
        let '(_, p1) := pos_of s1 vi newC in
        let '(_, p2) := pos_of s1 vi (v_simNum q2) in
        (apply_gate2_at s1 vi k2 g p1 p2, OkNone)
      else
        (* case 7: both remote at two different nodes: fresh local register (exempt from the limit) absorbs both *)
        let '(nd1, r) := add_register_force (nth_node s vi) in
        let s0 := set_node s vi nd1 in
        let '(s1, newC) := merge_from s0 vi (v_simNode q1) (v_simNum q1) (r_num r) in
        let '(s2, newT) := merge_from s1 vi (v_simNode q2) (v_simNum q2) (r_num r) in
        let '(_, p1) := pos_of s2 vi newC in
        let '(_, p2) := pos_of s2 vi newT in
        (apply_gate2_at s2 vi (r_num r) g p1 p2, OkNone)
  | _, _ => (s, Ignored)
  end.

Definition step (s : net) (o : op) : net * out :=
  match o with
  | ONew n => if Nat.ltb n (length (nodes s)) then op_new s n else (s, Ignored)
  | OGate1 h g => op_gate1 s h g
  | OGate2 h1 h2 g => op_gate2 s h1 h2 g
  | OSend h t => op_send s h t
  | OMeas h ip c => op_meas s h ip c
  | ONewReg n mq => if Nat.ltb n (length (nodes s)) then op_newreg s n mq else (s, Ignored)
  | ONewInReg n owner k => if Nat.ltb n (length (nodes s)) then op_new_inreg s n owner k else (s, Ignored)
  end.

Definition run (s : net) (ops : list op) : net := fold_left (fun st o => fst (step st o)) ops s.
Fixpoint run_outs (s : net) (ops : list op) : list out :=
  match ops with
  | [] => []
  | o :: t => let '(s', r) := step s o in r :: run_outs s' t
  end.
