(* Concrete histories: the hypotheses of the C18 theorems are satisfiable by non-trivial reachable states, and
   two remarks with witnesses (lost update between two long-lived writers; user values leaking into the store).
   All by vm_compute on the executable model. *)
From Coq Require Import List String ZArith Bool Arith.
From SQ Require Import Base.ListUtil Settings.Model Settings.Facts Settings.Theorems.
Import ListNotations.
Local Open Scope string_scope.

Definition dflt0 : dict :=
  [("_read_user", VBool true); ("max_qubits", VInt 20); ("max_registers", VInt 1000);
   ("conn_retry_time", VFloat 1 2); ("recv_timeout", VInt 100); ("recv_retry_time", VFloat 3602879701896397 36028797018963968);
   ("log_level", VInt 30); ("sim_backend", VStr "stabilizer"); ("network_config_file", VStr "/pkg/config/network.json");
   ("noisy_qubits", VBool false); ("t1", VFloat 1 1)].

Lemma dflt0_wf : wf dflt0.
Proof. unfold wf. simpl. repeat (constructor; [simpl; intuition discriminate|]). constructor. Qed.

Definition user0 : option dict := Some [("sim_backend", VStr "projectq"); ("t1", VFloat 1 4)].
Lemma user0_wf : optwf user0.
Proof. unfold optwf, wf. simpl. repeat (constructor; [simpl; intuition discriminate|]). constructor. Qed.

(* a single-writer history with two long-lived processes: 2 reloads before it writes *)
Definition h1_ex : list op := [Spawn 1; Spawn 2; SetK 2 "log_level" (VInt 10)].
Definition h2_ex : list op := [Reload 1; SetK 1 "noisy_qubits" (VBool true); Spawn 3; Exit 2; Reload 3; SetK 3 "t1" (VInt 9)].

Example set_then_spawn_hypotheses :
  let s0 := run dflt0 (init None user0) h1_ex in
  disciplined dflt0 (init None user0) (h1_ex ++ SetK 2 "max_qubits" (VInt 7) :: h2_ex) = true /\
  cache_of (procs s0) 2 <> None /\
  forallb (fun o => negb (writes_key "max_qubits" o)) h2_ex = true /\
  user_has s0 "max_qubits" = false /\
  fresh_read dflt0 (run dflt0 s0 (SetK 2 "max_qubits" (VInt 7) :: h2_ex)) "max_qubits" = Some (VInt 7) /\
  (* the user's key keeps its precedence although process 3 wrote it *)
  fresh_read dflt0 (run dflt0 s0 (SetK 2 "max_qubits" (VInt 7) :: h2_ex)) "t1" = Some (VFloat 1 4).
Proof. vm_compute. repeat split; congruence. Qed.

Example reset_hypotheses :
  let s0 := run dflt0 (init None user0) (h1_ex ++ [SetK 2 "max_qubits" (VInt 7)]) in
  disciplined dflt0 (init None user0) ((h1_ex ++ [SetK 2 "max_qubits" (VInt 7)]) ++ Reset 2 :: [Reload 1; SetK 1 "log_level" (VInt 5)]) = true /\
  cache_of (procs s0) 2 <> None /\
  fresh_read dflt0 s0 "max_qubits" = Some (VInt 7) /\
  fresh_read dflt0 (run dflt0 s0 (Reset 2 :: [Reload 1; SetK 1 "log_level" (VInt 5)])) "max_qubits" = Some (VInt 20).
Proof. vm_compute. repeat split; congruence. Qed.

Example user_precedence_hypotheses :
  let s := run dflt0 (init None user0) (h1_ex ++ SetK 2 "sim_backend" (VStr "qutip") :: h2_ex) in
  overrides_enabled dflt0 s = true /\
  fresh_read dflt0 s "sim_backend" = Some (VStr "projectq") /\
  (* switched off through the settings object: the stored value is read *)
  fresh_read dflt0 (step dflt0 (step dflt0 s (SetK 3 "sim_backend" (VStr "qutip"))) (SetK 3 "_read_user" (VBool false))) "sim_backend"
    = Some (VStr "qutip").
Proof. vm_compute. repeat split. Qed.

(* Remark 1 (not claimed as a defect of C18's single-writer reading): lost update between two long-lived writers.
   Process 2 was started before process 1 wrote; its later write of another key stores its whole stale cache. *)
Definition lost_update_history : list op :=
  [Spawn 1; Spawn 2; SetK 1 "max_qubits" (VInt 7); SetK 2 "t1" (VFloat 5 2)].

Lemma lost_update_witness :
  disciplined dflt0 (init None None) lost_update_history = false /\
  fresh_read dflt0 (run dflt0 (init None None) [Spawn 1; Spawn 2; SetK 1 "max_qubits" (VInt 7)]) "max_qubits" = Some (VInt 7) /\
  fresh_read dflt0 (run dflt0 (init None None) lost_update_history) "max_qubits" = Some (VInt 20).
Proof. vm_compute. repeat split. Qed.

(* Remark 2: _write() stores the whole cache, user overrides included; after overrides are switched off the
   user's value is still what later processes read for a key nobody wrote through the settings object.
   (The property exempts keys the user's file sets, so this is not a counterexample either.) *)
Lemma user_value_leaks_into_store :
  let s := run dflt0 (init None user0) [Spawn 1; SetK 1 "_read_user" (VBool false)] in
  overrides_enabled dflt0 s = false /\
  fresh_read dflt0 s "sim_backend" = Some (VStr "projectq") /\
  lookup dflt0 "sim_backend" = Some (VStr "stabilizer").
Proof. vm_compute. repeat split. Qed.
