(* The documented rate p = (1 - exp(-t/T1))/4 over Coq's real numbers.  This is the only file of the noise
   model that depends on the standard library's Reals (and hence on its axioms, which Print Assumptions lists
   for C19_rate_range in Properties/C19_rate.v).  Everything else about noise is in Noise/Decide*.v over Q. *)
From Coq Require Import Reals Lra.
Local Open Scope R_scope.

Definition rate (t T1 : R) : R := (1 - exp (- t / T1)) / 4.

Lemma exponent_nonpos t T1 : 0 <= t -> 0 < T1 -> - t / T1 <= 0.
Proof.
  intros Ht HT. unfold Rdiv.
  assert (H : 0 < / T1) by (apply Rinv_0_lt_compat; auto).
  replace (- t * / T1) with (- (t * / T1)) by ring.
  assert (0 <= t * / T1) by (apply Rmult_le_pos; lra). lra.
Qed.

Lemma exp_le_1 u : u <= 0 -> exp u <= 1.
Proof.
  intros [H|H].
  - left. rewrite <- exp_0. apply exp_increasing; auto.
  - subst. rewrite exp_0. lra.
Qed.

Lemma rate_range_lemma : forall t T1, 0 <= t -> 0 < T1 -> 0 <= rate t T1 < 1 / 4.
Proof.
  intros t T1 Ht HT. unfold rate.
  pose proof (exp_pos (- t / T1)) as Hp.
  pose proof (exp_le_1 _ (exponent_nonpos t T1 Ht HT)) as H1.
  lra.
Qed.

Lemma rate_zero : forall T1, rate 0 T1 = 0.
Proof. intros. unfold rate. replace (- 0 / T1) with 0 by (unfold Rdiv; ring). rewrite exp_0. lra. Qed.

Lemma rate_pos : forall t T1, 0 < t -> 0 < T1 -> 0 < rate t T1.
Proof.
  intros t T1 Ht HT. unfold rate.
  assert (H : - t / T1 < 0).
  { unfold Rdiv. assert (0 < / T1) by (apply Rinv_0_lt_compat; auto).
    replace (- t * / T1) with (- (t * / T1)) by ring.
    assert (0 < t * / T1) by (apply Rmult_lt_0_compat; auto). lra. }
  pose proof (exp_increasing _ _ H) as E. rewrite exp_0 in E. lra.
Qed.

(* the three intervals fit into [0,1): total probability of an error 3p < 3/4 *)
Lemma rate_total : forall t T1, 0 <= t -> 0 < T1 -> 0 <= 3 * rate t T1 < 3 / 4.
Proof. intros t T1 Ht HT. pose proof (rate_range_lemma t T1 Ht HT). lra. Qed.

Example rate_hypotheses_satisfiable : 0 <= rate 1 1 < 1 / 4 /\ 0 < rate 1 1.
Proof. split; [apply rate_range_lemma | apply rate_pos]; lra. Qed.
