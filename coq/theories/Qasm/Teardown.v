(* C11: teardown.  In the closed world of one NetQASM host on node i (no entanglement generation: that part is in
   Qasm/Epr.v) the node holds exactly the qubits of qubitList, every mapped address has its qubit, and nothing else is
   in qubitList; hence stopping the applications returns the node to an empty population, for any history
   (failed subroutines, refused allocations, any number of generations). *)
From Coq Require Import List Bool Arith Lia.
From SQ Require Import Base.ListUtil Stab.Tableau Net.Model Net.Refusal Net.Handles Net.Inv Net.InvNew Net.InvStep
  Net.Population Net.PerNode Qasm.Exec Qasm.ExecProps.
Import ListNotations.

(* ---- small facts ---------------------------------------------------------------------------------------------------- *)
Lemma premove_absent k l : plookup k l = None -> premove k l = l.
Proof.
  induction l as [|[k' v] t IH]; simpl; auto. destruct (pid_eqb_spec k' k); [discriminate|]. intro H. f_equal; auto.
Qed.
Lemma plookup_in_keys k l v : plookup k l = Some v -> In k (map fst l).
Proof.
  induction l as [|[k' v'] t IH]; simpl; [discriminate|]. destruct (pid_eqb_spec k' k); auto.
Qed.
Lemma plookup_none_keys k l : plookup k l = None -> ~ In k (map fst l).
Proof.
  induction l as [|[k' v'] t IH]; simpl; [tauto|]. destruct (pid_eqb_spec k' k); [discriminate|].
  intros H [E|E]; [contradiction|]. apply IH; auto.
Qed.
Lemma premove_keys k l x : In x (map fst (premove k l)) -> In x (map fst l) /\ x <> k.
Proof.
  induction l as [|[k' v'] t IH]; simpl; [tauto|]. destruct (pid_eqb_spec k' k); simpl.
  - intro H. apply IH in H. tauto.
  - intros [E|E]; [subst; auto|]. apply IH in E. tauto.
Qed.
Lemma premove_nodup k l : NoDup (map fst l) -> NoDup (map fst (premove k l)).
Proof.
  induction l as [|[k' v'] t IH]; simpl; auto. intro H. inversion H; subst.
  destruct (pid_eqb_spec k' k); simpl; auto. constructor; auto. intro E. apply premove_keys in E. tauto.
Qed.
Lemma premove_length k l v : NoDup (map fst l) -> plookup k l = Some v -> length (premove k l) = length l - 1.
Proof.
  induction l as [|[k' v'] t IH]; simpl; [discriminate|]. intros Hn H. inversion Hn; subst.
  destruct (pid_eqb_spec k' k).
  - subst. rewrite premove_absent; [lia|].
    destruct (plookup k t) eqn:E; auto. apply plookup_in_keys in E. contradiction.
  - simpl. rewrite IH; auto. destruct t; simpl in *; [discriminate|lia].
Qed.
Lemma filter_neq_length x l : NoDup l -> In x l -> length (filter (fun y => negb (Nat.eqb y x)) l) = length l - 1.
Proof.
  induction l as [|a t IH]; simpl; [tauto|]. intros Hn Hin. inversion Hn; subst.
  destruct (Nat.eqb_spec a x).
  - subst. simpl. rewrite Nat.sub_0_r.
    assert (E : filter (fun y => negb (Nat.eqb y x)) t = t).
    { clear - H1. induction t as [|b t IH]; simpl; auto. destruct (Nat.eqb_spec b x); simpl.
      - exfalso. apply H1. subst. simpl; auto.
      - f_equal. apply IH. intro; apply H1; simpl; auto. }
    rewrite E. reflexivity.
  - simpl. destruct Hin as [E|Hin]; [contradiction|]. rewrite IH; auto. destruct t; simpl in *; [tauto|lia].
Qed.

Lemma locate_some s vi q : inv s -> In q (virt (nth_node s vi)) -> exists x r, locate s q = Some (x, r).
Proof.
  intros H Hq. destruct (inv_backed s H vi q Hq) as (x & r & B1 & B2 & B3 & B4 & _).
  exists x, r. unfold locate.
  rewrite (find_sq_in (v_simNum q) _ x); auto; [|apply (ok_snum _ (inv_nodes s H (v_simNode q)))].
  rewrite (find_reg_in (s_reg x) _ r); auto. apply (ok_rnum _ (inv_nodes s H (v_simNode q))).
Qed.

(* a live handle can always be measured *)
Lemma meas_live_ok s h ip c vi q : inv s -> find_handle s h = Some (vi, q) -> exists v, snd (step s (OMeas h ip c)) = Ok v.
Proof.
  intros H F. simpl. unfold op_meas. rewrite F.
  apply find_handle_some in F as (_ & Hq & _). destruct (locate_some s vi q H Hq) as (x & r & E). rewrite E.
  destruct (measure _ _ _ _ _) as [[o n1] t1]. destruct ip; eexists; reflexivity.
Qed.

Lemma holder_is s i h vi q : hid_inv s -> In h (hn (nth_node s i)) -> find_handle s h = Some (vi, q) -> vi = i.
Proof.
  intros HI Hin F. apply find_handle_some in F as (_ & Hq & Eh).
  unfold hn in Hin. apply in_map_iff in Hin as (q' & E' & Hq').
  destruct (hid_unique s vi i q q' HI Hq Hq'); auto. congruence.
Qed.

Lemma live_find s i h : In h (hn (nth_node s i)) -> exists vi q, find_handle s h = Some (vi, q).
Proof.
  intro Hin. destruct (find_handle s h) as [[vi q]|] eqn:E; eauto.
  exfalso. apply (proj1 (stale_iff s h) E). unfold hids. apply in_flat_map.
  destruct (Nat.ltb_spec i (length (nodes s))).
  - exists (nth_node s i). split; auto. apply nth_In; auto.
  - rewrite nth_node_overflow in Hin; auto. simpl in Hin. contradiction.
Qed.

(* ---- the closed-world invariant ------------------------------------------------------------------------------------------ *)
Record tinv (i : nat) (s : qst) : Prop := mkTinv {
  t_h : hinv s;
  t_inv : inv (q_net s);
  (* every handle of qubitList is a qubit held by this node *)
  t_live : forall p hd, plookup p (h_qlist (q_host s)) = Some hd -> In hd (hn (nth_node (q_net s) i));
  (* qubitList only has physical ids that are marked used *)
  t_keys : forall k hd, plookup k (h_qlist (q_host s)) = Some hd -> exists p, k = PP p /\ In p (h_used (q_host s));
  t_nodup : NoDup (map fst (h_qlist (q_host s)));
  (* the node holds nothing else *)
  t_count : held (q_net s) i = length (h_qlist (q_host s));
  (* every mapped address has its qubit (since the D16 repair a refused qalloc is rolled back) *)
  t_complete : forall app um a p, alookup app (h_units (q_host s)) = Some um -> nth_error um a = Some (Some p) ->
               plookup (PP p) (h_qlist (q_host s)) <> None
}.

Definition not_mapped (h : host) (p : nat) : Prop :=
  forall app um a, alookup app (h_units h) = Some um -> nth_error um a <> Some (Some p).

(* a native call that does not create or destroy qubits *)
Lemma tinv_quiet i s o : quiet_op o = true -> tinv i s -> tinv i (fst (fst (native s o))).
Proof.
  intros Q [H I L K N C M].
  pose proof (hinv_native s o H) as H'.
  unfold native in *. destruct (step (q_net s) o) as [n' r] eqn:E. simpl in *.
  pose proof (step_quiet (q_net s) o i Q) as [A _]. rewrite E in A. simpl in A.
  constructor; simpl; auto.
  - pose proof (step_ginv (q_net s) o (conj (inv_net s H) I)) as [_ G]. rewrite E in G. exact G.
  - intros p hd Hp. rewrite A. eauto.
  - rewrite held_hn, A, <- held_hn. exact C.
Qed.

(* one iteration of the clearing loop: physical id p is used, has its qubit, and is no longer mapped *)
Lemma clear_one i s p c hd :
  tinv i s -> In p (h_used (q_host s)) -> plookup (PP p) (h_qlist (q_host s)) = Some hd -> not_mapped (q_host s) p ->
  let s0 := mkQ (q_net s) (with_used (q_host s) (remove_nat p (h_used (q_host s)))) in
  exists s1 tr, clear_phys s0 p c = (s1, true, tr) /\ tinv i s1 /\
    h_units (q_host s1) = h_units (q_host s) /\ h_active (q_host s1) = h_active (q_host s) /\
    h_used (q_host s1) = remove_nat p (h_used (q_host s)) /\
    h_qlist (q_host s1) = premove (PP p) (h_qlist (q_host s)).
Proof.
  intros T Hu Hp NM s0. destruct T as [H I L K N C M].
  assert (H0 : hinv s0) by (apply hinv_unuse; auto).
  pose proof (hinv_clear_phys s0 p c H0) as H1.
  unfold clear_phys in *. unfold virt_of in *. unfold s0 in *. clear s0. cbn [q_host with_used h_qlist] in *. rewrite Hp in *.
  pose proof (L _ _ Hp) as Lhd.
  destruct (live_find (q_net s) i hd Lhd) as (vi & vq & F).
  assert (vi = i) by (eapply holder_is; eauto; apply (inv_net s H)). subst vi.
  destruct (meas_live_ok (q_net s) hd false c i vq I F) as [v Ok1].
  unfold native in *. cbn [q_net q_host] in *.
  pose proof (step_meas_hn (q_net s) hd c v i vq i Ok1 F) as [A _].
  pose proof (step_ginv (q_net s) (OMeas hd false c) (conj (inv_net s H) I)) as [_ G].
  destruct (step (q_net s) (OMeas hd false c)) as [n' r] eqn:E. cbn [fst snd] in *. subst r.
  rewrite Nat.eqb_refl in A.
  eexists; eexists. split; [reflexivity|]. cbn [q_net q_host with_qlist with_used h_units h_active h_used h_qlist].
  split; [|auto].
  constructor; cbn [q_net q_host with_qlist with_used h_units h_active h_used h_qlist]; auto.
  - intros p0 hd0 Hp0. apply plookup_premove_some in Hp0 as [Hp0 Ne].
    rewrite A. apply filter_In. split; [eauto|].
    destruct (Nat.eqb_spec hd0 hd); auto. subst. exfalso. apply Ne. symmetry. eapply (inv_qinj s H); eauto.
  - intros k hd0 Hk. apply plookup_premove_some in Hk as [Hk Ne]. destruct (K _ _ Hk) as (p0 & -> & Hin).
    exists p0. split; auto. apply remove_nat_in. split; auto; try (intro; subst; apply Ne; reflexivity).
  - apply premove_nodup; auto.
  - rewrite held_hn, A. rewrite filter_neq_length; auto.
    + rewrite (premove_length _ _ hd); auto. rewrite <- C, held_hn. reflexivity.
    + apply (node_hids_nodup (q_net s) i (inv_net s H)).
  - intros app um a p0 E1 E2. rewrite plookup_premove_neq; [eauto|].
    intro X. inversion X; subst. eapply NM; eauto.
Qed.

(* the clearing loop over a popped unit module *)
Lemma clear_all_ok i um : forall s coins,
  tinv i s ->
  (forall a p, nth_error um a = Some (Some p) -> In p (h_used (q_host s)) /\ plookup (PP p) (h_qlist (q_host s)) <> None /\ not_mapped (q_host s) p) ->
  (forall a a' p, nth_error um a = Some (Some p) -> nth_error um a' = Some (Some p) -> a = a') ->
  exists s1 tr, clear_all s um coins = (s1, true, tr) /\ tinv i s1 /\
    h_units (q_host s1) = h_units (q_host s) /\ h_active (q_host s1) = h_active (q_host s) /\
    (forall k, In k (map fst (h_qlist (q_host s1))) ->
               In k (map fst (h_qlist (q_host s))) /\ forall a p, nth_error um a = Some (Some p) -> k <> PP p).
Proof.
  induction um as [|[p|] t IH]; intros s coins T F D; simpl.
  - eexists; eexists. split; [reflexivity|]. split; [auto|]. split; [auto|]. split; [auto|].
    intros k Hk. split; [auto|]. intros a p E. destruct a; discriminate.
  - destruct (F 0 p eq_refl) as (Hu & Hq & NM).
    assert (M : mem_nat p (h_used (q_host s)) = true) by (apply mem_nat_in; auto). rewrite M. simpl.
    destruct (plookup (PP p) (h_qlist (q_host s))) as [hq|] eqn:Ep; [|contradiction].
    destruct (clear_one i s p (hd false coins) hq T Hu Ep NM) as (s1 & tr & E1 & T1 & U1 & A1 & X1 & Q1).
    cbv zeta in E1. rewrite E1.
    destruct (IH s1 (tl coins) T1) as (s2 & tr2 & E2 & T2 & U2 & A2 & Q2).
    + intros a p0 Ea. destruct (F (S a) p0 Ea) as (Hu0 & Hq0 & NM0).
      assert (Np : p0 <> p). { intro; subst. specialize (D (S a) 0 p Ea eq_refl). discriminate. }
      split; [|split].
      * rewrite X1. apply remove_nat_in. auto.
      * rewrite Q1. rewrite plookup_premove_neq; auto. congruence.
      * unfold not_mapped. rewrite U1. exact NM0.
    + intros a a' p0 Ea Ea'. specialize (D (S a) (S a') p0 Ea Ea'). lia.
    + rewrite E2. eexists; eexists. split; [reflexivity|]. split; auto. split; [congruence|]. split; [congruence|].
      intros k Hk. apply Q2 in Hk as [Hk1 Hk2]. rewrite Q1 in Hk1. apply premove_keys in Hk1 as [Hk1 Nk]. split; auto.
      intros [|a] p0 Ea; [inversion Ea; subst; auto | eauto].
  - destruct (IH s coins T) as (s2 & tr2 & E2 & T2 & U2 & A2 & Q2).
    + intros a p0 Ea. apply (F (S a) p0 Ea).
    + intros a a' p0 Ea Ea'. specialize (D (S a) (S a') p0 Ea Ea'). lia.
    + rewrite E2. eexists; eexists. split; [reflexivity|]. split; [auto|]. split; [auto|]. split; [auto|].
      intros k Hk. apply Q2 in Hk as [Hk1 Hk2]. split; [auto|].
      intros [|a] p0 Ea; [discriminate|]. eauto.
Qed.

Lemma nth_error_upd_none_some um a a0 (p : nat) : nth_error (upd um a None) a0 = Some (Some p) -> nth_error um a0 = Some (Some p) /\ a0 <> a.
Proof.
  intro H. destruct (Nat.eq_dec a a0) as [E|N].
  - subst. destruct (Nat.ltb_spec a0 (length um)).
    + rewrite nth_error_upd_eq in H by auto. discriminate.
    + assert (nth_error (upd um a0 None) a0 = None) by (apply nth_error_None; rewrite upd_length; auto). congruence.
  - rewrite nth_error_upd_neq in H by auto. auto.
Qed.

Lemma hinv_remove_app s app act :
  hinv s -> hinv (mkQ (q_net s) (with_units (with_active (q_host s) act) (aremove app (h_units (q_host s))))).
Proof.
  intros [N U J L Q]. constructor; simpl; auto.
  - intros app0 um0 a p H1 H2. destruct (Nat.eq_dec app app0) as [EQ|Ne]; [subst app0|].
    + rewrite alookup_aremove_eq in H1. discriminate.
    + rewrite alookup_aremove_neq in H1 by auto. eauto.
  - intros app0 um0 a app' um' a' p H1 H2 H3 H4.
    destruct (Nat.eq_dec app app0) as [EQ|Ne]; [subst app0; rewrite alookup_aremove_eq in H1; discriminate|].
    destruct (Nat.eq_dec app app') as [EQ|Ne']; [subst app'; rewrite alookup_aremove_eq in H3; discriminate|].
    rewrite alookup_aremove_neq in H1, H3 by auto. eauto.
Qed.

Lemma unmap_sub s app um a : alookup app (h_units (q_host s)) = Some um ->
  forall appx umx ax p1, alookup appx (aset app (upd um a None) (h_units (q_host s))) = Some umx ->
     nth_error umx ax = Some (Some p1) ->
     (exists umy, alookup appx (h_units (q_host s)) = Some umy /\ nth_error umy ax = Some (Some p1)) /\ (appx = app -> ax <> a).
Proof.
  intros EU appx umx ax p1 X1 X2. destruct (Nat.eq_dec app appx) as [EQ|Ne]; [subst appx|].
  - rewrite alookup_aset_eq in X1. inversion X1; subst. apply nth_error_upd_none_some in X2 as [X2 X3].
    split; [exists um; auto|auto].
  - rewrite alookup_aset_neq in X1 by auto. split; [eauto|congruence].
Qed.

Lemma hinv_unmap s app um a :
  hinv s -> alookup app (h_units (q_host s)) = Some um ->
  hinv (mkQ (q_net s) (with_units (q_host s) (aset app (upd um a None) (h_units (q_host s))))).
Proof.
  intros [N U J L Q] EU. constructor; simpl; auto.
  - intros app0 um0 a0 p1 H1 H2. destruct (unmap_sub s app um a EU _ _ _ _ H1 H2) as [(y & Y1 & Y2) _]. eauto.
  - intros app0 um0 a0 app' um' a' p1 H1 H2 H3 H4.
    destruct (unmap_sub s app um a EU _ _ _ _ H1 H2) as [(y & Y1 & Y2) _].
    destruct (unmap_sub s app um a EU _ _ _ _ H3 H4) as [(y' & Y3 & Y4) _]. eauto.
Qed.

(* ---- every instruction keeps the invariant --------------------------------------------------------------------------------- *)
Local Arguments step : simpl never.
Theorem tinv_exec i s q : tinv i s -> tinv i (fst (fst (exec i s q))).
Proof.
  intro T. pose proof (addr_inv i s q (t_h i s T)) as HH.
  destruct q; simpl in *.
  - (* init app *)
    destruct T as [H I L K N C M]. constructor; simpl; auto.
    intros app0 um a p H1 H2. destruct (Nat.eq_dec app app0) as [EQ|Ne]; [subst app0|].
    + rewrite alookup_aset_eq in H1. inversion H1; subst. exfalso. eapply nth_error_repeat_none; eauto.
    + rewrite alookup_aset_neq in H1 by auto. eauto.
  - (* stop app *)
    destruct (negb (mem_nat app (h_active (q_host s)))); [exact T|].
    destruct (alookup app (h_units (q_host s))) as [um|] eqn:EU; simpl in *.
    + set (s1 := mkQ (q_net s) _) in *.
      assert (T1 : tinv i s1).
      { destruct T as [H I L K N C M]. constructor; simpl; auto.
        - apply hinv_remove_app; auto.
        - intros app0 um0 a p H1 H2. destruct (Nat.eq_dec app app0) as [EQ|Ne]; [subst app0|].
          + rewrite alookup_aremove_eq in H1. discriminate.
          + rewrite alookup_aremove_neq in H1 by auto. eauto. }
      destruct (clear_all_ok i um s1 coins T1) as (s2 & tr & E & T2 & _).
      * intros a p Ea. destruct T as [H I L K N C M]. split; [|split].
        -- simpl. eapply (inv_used s H); eauto.
        -- simpl. eauto.
        -- intros app0 um0 a0 E1 E2. simpl in E1.
           destruct (Nat.eq_dec app app0) as [EQ|Ne]; [subst app0; rewrite alookup_aremove_eq in E1; discriminate|].
           rewrite alookup_aremove_neq in E1 by auto.
           destruct (inv_uinj s H app um a app0 um0 a0 p EU Ea E1 E2). contradiction.
      * intros a a' p Ea Ea'. destruct (inv_uinj s (t_h i s T) app um a app um a' p EU Ea EU Ea'); auto.
      * rewrite E. exact T2.
    + destruct T as [H I L K N C M]. constructor; simpl; auto.
  - (* qalloc *)
    destruct (alookup app (h_units (q_host s))) as [um|] eqn:EU; [|exact T].
    destruct (nth_error um a) as [[p0|]|] eqn:EA; try exact T.
    set (p := fresh_id (h_used (q_host s))) in *.
    set (h1 := with_units _ _) in *.
    pose proof (fresh_id_not_in (h_used (q_host s))) as FR. fold p in FR.
    assert (La : a < length um) by (apply nth_error_Some; congruence).
    unfold cmd_new in *. cbn [q_net q_host] in *.
    destruct (step (q_net s) (ONew i)) as [n' o] eqn:ES.
    destruct T as [H I L K N C M].
    assert (NK : plookup (PP p) (h_qlist (q_host s)) = None).
    { destruct (plookup (PP p) (h_qlist (q_host s))) as [x|] eqn:E; auto. destruct (K _ _ E) as (p1 & E1 & E2).
      inversion E1; subst. contradiction. }
    assert (NOK : (forall v, o <> Ok v) -> n' = q_net s).
    { intro X. pose proof (step_not_ok_same (q_net s) (ONew i)) as Y. rewrite ES in Y. apply Y; auto. }
    destruct o; simpl in *;
      try (rewrite NOK by (intros; discriminate); destruct s as [sn sh]; simpl in *; constructor; auto; fail).
    pose proof (step_new_hn (q_net s) i v i) as Y. rewrite ES in Y. simpl in Y. destruct (Y eq_refl) as (A & _ & _).
    rewrite Nat.eqb_refl in A.
    pose proof (step_ginv (q_net s) (ONew i) (conj (inv_net s H) I)) as [_ G]. rewrite ES in G. simpl in G.
    constructor; simpl; auto.
    + intros p1 hd Hp. rewrite A. apply in_or_app. destruct (pid_eqb_spec (PP p) p1) as [EQ|Ne].
      * subst p1. rewrite plookup_pset_eq in Hp. inversion Hp. right; simpl; auto.
      * rewrite plookup_pset_neq in Hp by auto. left; eauto.
    + intros k hd Hk. destruct (pid_eqb_spec (PP p) k) as [EQ|Ne].
      * subst k. exists p. split; auto. apply insert_sorted_in; auto.
      * rewrite plookup_pset_neq in Hk by auto. destruct (K _ _ Hk) as (p1 & E1 & E2). exists p1. split; auto.
        apply insert_sorted_in; auto.
    + unfold pset. rewrite premove_absent by auto. rewrite map_app. simpl.
      apply NoDup_app_iff. split; [auto|]. split; [constructor; [simpl; tauto|constructor]|].
      intros x Hx [E|[]]. subst. apply plookup_none_keys in NK. contradiction.
    + rewrite held_hn, A, app_length. simpl. unfold pset. rewrite premove_absent by auto.
      rewrite app_length. simpl. rewrite <- C, held_hn. reflexivity.
    + intros app0 um0 a0 p1 H1 H2. destruct (pid_eqb_spec (PP p) (PP p1)) as [EQ|Ne].
      * inversion EQ; subst. rewrite plookup_pset_eq. discriminate.
      * rewrite plookup_pset_neq by auto.
        destruct (Nat.eq_dec app app0) as [EQ|Na]; [subst app0|].
        -- rewrite alookup_aset_eq in H1. inversion H1; subst.
           destruct (Nat.eq_dec a a0) as [EQ|Naa]; [subst a0|].
           ++ rewrite nth_error_upd_eq in H2 by auto. inversion H2; subst. exfalso; apply Ne; reflexivity.
           ++ rewrite nth_error_upd_neq in H2 by auto. eauto.
        -- rewrite alookup_aset_neq in H1 by auto. eauto.
  - (* init *)
    destruct (handle_of (q_host s) app a) as [hd|]; [|exact T].
    pose proof (tinv_quiet i s (OMeas hd true coin) eq_refl T) as T1.
    destruct (native s (OMeas hd true coin)) as [[s1 r] tr]. simpl in T1.
    destruct r as [v| | |k]; simpl; auto.
    destruct v as [|[|v]]; simpl; auto.
    pose proof (tinv_quiet i s1 (OGate1 hd NX) eq_refl T1) as T2.
    destruct (native s1 (OGate1 hd NX)) as [[s2 r2] tr2]. exact T2.
  - destruct (handle_of (q_host s) app a) as [hd|]; [|exact T].
    pose proof (tinv_quiet i s (OGate1 hd (native1 g)) eq_refl T) as T1.
    destruct (native s (OGate1 hd (native1 g))) as [[s1 r] tr]. exact T1.
  - destruct (handle_of (q_host s) app a) as [hd|]; [|exact T].
    pose proof (tinv_quiet i s (OGate1 hd NRot) eq_refl T) as T1.
    destruct (native s (OGate1 hd NRot)) as [[s1 r] tr]. exact T1.
  - destruct (position (q_host s) app a1) as [p1|]; [|exact T].
    destruct (position (q_host s) app a2) as [p2|]; [|exact T].
    destruct (virt_of (q_host s) (PP p1)) as [h1|]; [|exact T].
    destruct (virt_of (q_host s) (PP p2)) as [h2|]; [|exact T].
    destruct (Nat.eqb h1 h2); [exact T|].
    pose proof (tinv_quiet i s (OGate2 h1 h2 (native2 g)) eq_refl T) as T1.
    destruct (native s (OGate2 h1 h2 (native2 g))) as [[s1 r] tr]. exact T1.
  - destruct (handle_of (q_host s) app a) as [hd|]; [|exact T].
    pose proof (tinv_quiet i s (OMeas hd true coin) eq_refl T) as T1.
    destruct (native s (OMeas hd true coin)) as [[s1 r] tr]. exact T1.
  - (* qfree *)
    destruct (alookup app (h_units (q_host s))) as [um|] eqn:EU; [|exact T].
    destruct (nth_error um a) as [[p|]|] eqn:EA; try exact T.
    set (h1 := with_units _ _) in *.
    assert (Hu : In p (h_used (q_host s))) by (eapply (inv_used s (t_h i s T)); eauto).
    assert (Mm : mem_nat p (h_used (q_host s)) = true) by (apply mem_nat_in; auto).
    rewrite Mm in *. simpl in *.
    assert (T1 : tinv i (mkQ (q_net s) h1)).
    { destruct T as [H I L K N C M]. constructor; simpl; auto.
      - apply hinv_unmap; auto.
      - intros app0 um0 a0 p1 H1 H2. destruct (unmap_sub s app um a EU _ _ _ _ H1 H2) as [(y & Y1 & Y2) _]. eauto. }
    destruct (plookup (PP p) (h_qlist (q_host s))) as [hq|] eqn:Ep;
      [|exfalso; eapply (t_complete i s T); eauto].
    destruct (clear_one i (mkQ (q_net s) h1) p coin hq T1) as (s1 & tr & E1 & T2 & _); auto.
    + intros app0 um0 a0 X1 X2. simpl in X1.
      destruct (unmap_sub s app um a EU _ _ _ _ X1 X2) as [(y & Y1 & Y2) Y3].
      destruct (inv_uinj s (t_h i s T) app um a app0 y a0 p EU EA Y1 Y2) as [E1 E2]. subst. apply Y3; auto.
    + cbv zeta in E1. simpl in E1. rewrite E1. exact T2.
Qed.

Definition init_q' := init_q.

Lemma init_tinv caps i : tinv i (init_q caps).
Proof.
  constructor; simpl; try (intros; discriminate).
  - apply init_hinv.
  - apply init_inv.
  - constructor.
  - unfold held, nth_node, init_net; simpl.
    destruct (nth_in_or_default i (map (fun c => empty_node (fst c) (snd c)) caps) (empty_node 0 0)) as [Hin|E].
    + apply in_map_iff in Hin as (c & E & _). rewrite <- E. reflexivity.
    + rewrite E. reflexivity.
Qed.

Theorem tinv_reachable caps i qs : tinv i (run_q i (init_q caps) qs).
Proof.
  assert (G : forall s, tinv i s -> tinv i (run_q i s qs)).
  { induction qs as [|q t IH]; intros s T; simpl; auto. apply IH. apply tinv_exec; auto. }
  apply G. apply init_tinv.
Qed.

(* ---- stopping an application always completes and removes everything it mapped -------------------------------------------- *)
Theorem stop_done i s app coins um :
  tinv i s -> mem_nat app (h_active (q_host s)) = true -> alookup app (h_units (q_host s)) = Some um ->
  snd (fst (exec i s (QStopApp app coins))) = RDone None /\
  alookup app (h_units (q_host (fst (fst (exec i s (QStopApp app coins)))))) = None /\
  (forall a p, nth_error um a = Some (Some p) -> plookup (PP p) (h_qlist (q_host (fst (fst (exec i s (QStopApp app coins)))))) = None).
Proof.
  intros T A EU. simpl. rewrite A. simpl. rewrite EU.
  set (s1 := mkQ (q_net s) _).
  assert (T1 : tinv i s1).
  { destruct T as [H I L K N C M]. constructor; simpl; auto.
    - apply hinv_remove_app; auto.
    - intros app0 um0 a p H1 H2. destruct (Nat.eq_dec app app0) as [EQ|Ne]; [subst app0|].
      + rewrite alookup_aremove_eq in H1. discriminate.
      + rewrite alookup_aremove_neq in H1 by auto. eauto. }
  destruct (clear_all_ok i um s1 coins T1) as (s2 & tr & E & T2 & U2 & A2 & Q2).
  - intros a p Ea. destruct T as [H I L K N C M]. split; [|split].
    + simpl. eapply (inv_used s H); eauto.
    + simpl. eauto.
    + intros app0 um0 a0 E1 E2. simpl in E1.
      destruct (Nat.eq_dec app app0) as [EQ|Ne]; [subst app0; rewrite alookup_aremove_eq in E1; discriminate|].
      rewrite alookup_aremove_neq in E1 by auto.
      destruct (inv_uinj s H app um a app0 um0 a0 p EU Ea E1 E2). contradiction.
  - intros a a' p Ea Ea'. destruct (inv_uinj s (t_h i s T) app um a app um a' p EU Ea EU Ea'); auto.
  - rewrite E. simpl. split; [reflexivity|]. split.
    + rewrite U2. simpl. apply alookup_aremove_eq.
    + intros a p Ea. destruct (plookup (PP p) (h_qlist (q_host s2))) as [x|] eqn:X; auto.
      apply plookup_in_keys in X. apply Q2 in X as [_ X]. exfalso. eapply X; eauto.
Qed.

(* ---- nothing but application qubits is in qubitList ------------------------------------------------------------------------- *)
Definition leakfree (s : qst) : Prop :=
  forall k hd, plookup k (h_qlist (q_host s)) = Some hd ->
  exists app um a p, k = PP p /\ alookup app (h_units (q_host s)) = Some um /\ nth_error um a = Some (Some p).
Definition fresh_init (s : qst) (q : qinstr) : Prop :=
  forall app m, q = QInitApp app m -> alookup app (h_units (q_host s)) = None.

Lemma in_keys_plookup k l : In k (map fst l) -> exists v, plookup k l = Some v.
Proof.
  induction l as [|[k' v'] t IH]; simpl; [tauto|]. destruct (pid_eqb_spec k' k); eauto.
  intros [E|E]; [contradiction|auto].
Qed.

Lemma native_host s o : q_host (fst (fst (native s o))) = q_host s.
Proof. unfold native. destruct (step (q_net s) o); reflexivity. Qed.

Theorem leakfree_exec i s q : tinv i s -> leakfree s -> fresh_init s q -> leakfree (fst (fst (exec i s q))).
Proof.
  intros T LF FI. destruct q; simpl.
  - (* init of an application id that has no unit module *)
    specialize (FI app maxq eq_refl). intros k hd Hk. simpl in Hk. destruct (LF k hd Hk) as (app0 & um & a & p & E1 & E2 & E3).
    exists app0, um, a, p. split; auto. split; auto. simpl. rewrite alookup_aset_neq; auto. congruence.
  - destruct (negb (mem_nat app (h_active (q_host s)))) eqn:A; [exact LF|].
    destruct (alookup app (h_units (q_host s))) as [um|] eqn:EU; simpl.
    + set (s1 := mkQ (q_net s) _).
      assert (T1 : tinv i s1).
      { destruct T as [H I L K N C M]. constructor; simpl; auto.
        - apply hinv_remove_app; auto.
        - intros app0 um0 a p H1 H2. destruct (Nat.eq_dec app app0) as [EQ|Ne]; [subst app0|].
          + rewrite alookup_aremove_eq in H1. discriminate.
          + rewrite alookup_aremove_neq in H1 by auto. eauto. }
      destruct (clear_all_ok i um s1 coins T1) as (s2 & tr & E & T2 & U2 & A2 & Q2).
      * intros a p Ea. destruct T as [H I L K N C M]. split; [|split].
        -- simpl. eapply (inv_used s H); eauto.
        -- simpl. eauto.
        -- intros app0 um0 a0 E1 E2. simpl in E1.
           destruct (Nat.eq_dec app app0) as [EQ|Ne]; [subst app0; rewrite alookup_aremove_eq in E1; discriminate|].
           rewrite alookup_aremove_neq in E1 by auto.
           destruct (inv_uinj s H app um a app0 um0 a0 p EU Ea E1 E2). contradiction.
      * intros a a' p Ea Ea'. destruct (inv_uinj s (t_h i s T) app um a app um a' p EU Ea EU Ea'); auto.
      * rewrite E. simpl. intros k hd Hk. apply plookup_in_keys in Hk. apply Q2 in Hk as [Hk1 Hk2].
        simpl in Hk1. apply in_keys_plookup in Hk1 as [v Hv]. destruct (LF k v Hv) as (app0 & um0 & a & p & E1 & E2 & E3).
        exists app0, um0, a, p. split; auto. split; auto. rewrite U2. simpl.
        destruct (Nat.eq_dec app app0) as [EQ|Ne].
        -- subst app0. rewrite EU in E2. inversion E2; subst. exfalso. eapply Hk2; eauto.
        -- rewrite alookup_aremove_neq; auto.
    + exact LF.
  - (* qalloc *)
    destruct (alookup app (h_units (q_host s))) as [um|] eqn:EU; [|exact LF].
    destruct (nth_error um a) as [[p0|]|] eqn:EA; try exact LF.
    assert (La : a < length um) by (apply nth_error_Some; congruence).
    unfold cmd_new. cbn [q_net q_host]. destruct (step (q_net s) (ONew i)) as [n' o]. destruct o; simpl; try exact LF.
    intros k hd Hk. simpl in Hk |- *. destruct (pid_eqb_spec (PP (fresh_id (h_used (q_host s)))) k) as [EQ|Ne].
    + subst k. exists app, (upd um a (Some (fresh_id (h_used (q_host s))))), a, (fresh_id (h_used (q_host s))).
      split; auto. split; [apply alookup_aset_eq|apply nth_error_upd_eq; auto].
    + rewrite plookup_pset_neq in Hk by auto. destruct (LF k hd Hk) as (app0 & um0 & a0 & p & E1 & E2 & E3).
      destruct (Nat.eq_dec app app0) as [EQ|Na].
      * subst app0. rewrite EU in E2. inversion E2; subst um0.
        exists app, (upd um a (Some (fresh_id (h_used (q_host s))))), a0, p. split; auto. split; [apply alookup_aset_eq|].
        rewrite nth_error_upd_neq; auto. intro; subst. congruence.
      * exists app0, um0, a0, p. split; auto. split; auto. rewrite alookup_aset_neq; auto.
  - destruct (handle_of (q_host s) app a) as [hd|]; [|exact LF].
    pose proof (native_host s (OMeas hd true coin)) as E1.
    destruct (native s (OMeas hd true coin)) as [[s1 r] tr]. simpl in E1.
    destruct r as [v| | |k]; simpl; try (unfold leakfree; rewrite E1; exact LF).
    destruct v as [|[|v]]; simpl; try (unfold leakfree; rewrite E1; exact LF).
    pose proof (native_host s1 (OGate1 hd NX)) as E2.
    destruct (native s1 (OGate1 hd NX)) as [[s2 r2] tr2]. simpl in *. unfold leakfree. rewrite E2, E1. exact LF.
  - destruct (handle_of (q_host s) app a) as [hd|]; [|exact LF].
    pose proof (native_host s (OGate1 hd (native1 g))) as E1.
    destruct (native s (OGate1 hd (native1 g))) as [[s1 r] tr]. simpl in *. unfold leakfree. rewrite E1. exact LF.
  - destruct (handle_of (q_host s) app a) as [hd|]; [|exact LF].
    pose proof (native_host s (OGate1 hd NRot)) as E1.
    destruct (native s (OGate1 hd NRot)) as [[s1 r] tr]. simpl in *. unfold leakfree. rewrite E1. exact LF.
  - destruct (position (q_host s) app a1) as [p1|]; [|exact LF].
    destruct (position (q_host s) app a2) as [p2|]; [|exact LF].
    destruct (virt_of (q_host s) (PP p1)) as [h1|]; [|exact LF].
    destruct (virt_of (q_host s) (PP p2)) as [h2|]; [|exact LF].
    destruct (Nat.eqb h1 h2); [exact LF|].
    pose proof (native_host s (OGate2 h1 h2 (native2 g))) as E1.
    destruct (native s (OGate2 h1 h2 (native2 g))) as [[s1 r] tr]. simpl in *. unfold leakfree. rewrite E1. exact LF.
  - destruct (handle_of (q_host s) app a) as [hd|]; [|exact LF].
    pose proof (native_host s (OMeas hd true coin)) as E1.
    destruct (native s (OMeas hd true coin)) as [[s1 r] tr]. simpl in *. unfold leakfree. rewrite E1. exact LF.
  - (* qfree *)
    destruct (alookup app (h_units (q_host s))) as [um|] eqn:EU; [|exact LF].
    destruct (nth_error um a) as [[p|]|] eqn:EA; try exact LF.
    set (h1 := with_units _ _).
    assert (Hu : In p (h_used (q_host s))) by (eapply (inv_used s (t_h i s T)); eauto).
    assert (Mm : mem_nat p (h_used (q_host s)) = true) by (apply mem_nat_in; auto).
    rewrite Mm. simpl.
    assert (T1 : tinv i (mkQ (q_net s) h1)).
    { destruct T as [H I L K N C M]. constructor; simpl; auto.
      - apply hinv_unmap; auto.
      - intros app0 um0 a0 p1 H1 H2. destruct (unmap_sub s app um a EU _ _ _ _ H1 H2) as [(y & Y1 & Y2) _]. eauto. }
    destruct (plookup (PP p) (h_qlist (q_host s))) as [hq|] eqn:Ep;
      [|exfalso; eapply (t_complete i s T); eauto].
    destruct (clear_one i (mkQ (q_net s) h1) p coin hq T1) as (s1 & tr & E1 & T2 & U1 & A1 & X1 & Q1); auto.
    + intros app0 um0 a0 Y1 Y2. simpl in Y1.
      destruct (unmap_sub s app um a EU _ _ _ _ Y1 Y2) as [(y & Z1 & Z2) Z3].
      destruct (inv_uinj s (t_h i s T) app um a app0 y a0 p EU EA Z1 Z2) as [E1 E2]. subst. apply Z3; auto.
    + cbv zeta in E1. simpl in E1. rewrite E1. simpl.
      intros k hd Hk. rewrite Q1 in Hk. simpl in Hk. apply plookup_premove_some in Hk as [Hk Ne].
      destruct (LF k hd Hk) as (app0 & um0 & a0 & p0 & F1 & F2 & F3). subst k.
      rewrite U1. simpl.
      destruct (Nat.eq_dec app app0) as [EQ|Na].
      * subst app0. rewrite EU in F2. inversion F2; subst um0.
        exists app, (upd um a None), a0, p0. split; auto. split; [apply alookup_aset_eq|].
        rewrite nth_error_upd_neq; auto. intro; subst. rewrite EA in F3. inversion F3; subst. apply Ne; reflexivity.
      * exists app0, um0, a0, p0. split; auto. split; auto. rewrite alookup_aset_neq; auto.
Qed.

(* when no application has a unit module the node is empty *)
Theorem idle_empty i s : tinv i s -> leakfree s -> h_units (q_host s) = [] ->
  h_qlist (q_host s) = [] /\ held (q_net s) i = 0.
Proof.
  intros T LF E. assert (Q : h_qlist (q_host s) = []).
  { destruct (h_qlist (q_host s)) as [|[k v] t] eqn:X; auto. exfalso.
    destruct (LF k v) as (app & um & a & p & _ & E2 & _).
    - rewrite X. simpl. destruct (pid_eqb_spec k k); congruence.
    - rewrite E in E2. discriminate. }
  split; auto. rewrite (t_count i s T), Q. reflexivity.
Qed.

Fixpoint fresh_inits (i : nat) (s : qst) (qs : list qinstr) : Prop :=
  match qs with [] => True | q :: t => fresh_init s q /\ fresh_inits i (fst (fst (exec i s q))) t end.

(* stop_restores: any history of instructions (failed ones included, any number of application generations, several
   applications at once) in which an application id is initialised only while it has no unit module: once every
   application has been stopped the node holds no qubit -- its population before the first application *)
Theorem stop_restores_from i qs : forall s, tinv i s -> leakfree s -> fresh_inits i s qs ->
  h_units (q_host (run_q i s qs)) = [] ->
  held (q_net (run_q i s qs)) i = 0 /\ h_qlist (q_host (run_q i s qs)) = [].
Proof.
  induction qs as [|q t IH]; intros s T LF FI E; simpl in *.
  - destruct (idle_empty i s T LF E); auto.
  - destruct FI as [F1 F2]. apply IH; auto.
    + apply tinv_exec; auto.
    + apply leakfree_exec; auto.
Qed.

Theorem stop_restores caps i qs : fresh_inits i (init_q caps) qs ->
  h_units (q_host (run_q i (init_q caps) qs)) = [] ->
  held (q_net (run_q i (init_q caps) qs)) i = held (q_net (init_q caps)) i /\ h_qlist (q_host (run_q i (init_q caps) qs)) = [].
Proof.
  intros F E. destruct (stop_restores_from i qs (init_q caps) (init_tinv caps i)) as [A B]; auto.
  - intros k hd H. discriminate.
  - split; auto. rewrite A. symmetry. rewrite (t_count i _ (init_tinv caps i)). reflexivity.
Qed.

(* ---- non-vacuity --------------------------------------------------------------------------------------------------------------- *)
(* node with room for 2 qubits; generation 1 allocates two qubits, is refused a third one (rolled back), entangles,
   frees one and stops while still holding one; generation 2 (same address space, new application id) allocates again *)
Definition ex_history : list qinstr :=
  [QInitApp 0 3; QAlloc 0 0; QAlloc 0 1; QAlloc 0 2; QG1 0 0 VH; QG2 0 0 1 VCnot; QG1 0 2 VX; QFree 0 0 true; QStopApp 0 [false];
   QInitApp 1 2; QAlloc 1 1; QAlloc 1 0; QMeas 1 1 true; QStopApp 1 [true; false]].

Definition fresh_initb (s : qst) (q : qinstr) : bool :=
  match q with
  | QInitApp app _ => match alookup app (h_units (q_host s)) with None => true | Some _ => false end
  | _ => true
  end.
Fixpoint fresh_initsb (i : nat) (s : qst) (qs : list qinstr) : bool :=
  match qs with [] => true | q :: t => fresh_initb s q && fresh_initsb i (fst (fst (exec i s q))) t end.
Lemma fresh_initsb_ok i qs : forall s, fresh_initsb i s qs = true -> fresh_inits i s qs.
Proof.
  induction qs as [|q t IH]; intros s H; [exact I|].
  cbn [fresh_initsb] in H. apply andb_prop in H as [H1 H2]. cbn [fresh_inits]. split; [|apply IH; exact H2].
  intros app m E. subst q. cbn [fresh_initb] in H1. destruct (alookup app (h_units (q_host s))); [discriminate|reflexivity].
Qed.

Example ex_history_fresh : fresh_inits 0 (init_q [(2, 3)]) ex_history.
Proof. apply fresh_initsb_ok. vm_compute. reflexivity. Qed.

Example ex_history_results :
  map (fun k => snd (fst (exec 0 (run_q 0 (init_q [(2, 3)]) (firstn k ex_history)) (nth k ex_history (QInitApp 0 0))))) [3; 6; 8; 13]
  = [RErr; RErr; RDone None; RDone None]
  /\ held (q_net (run_q 0 (init_q [(2, 3)]) (firstn 8 ex_history))) 0 = 1.
Proof. vm_compute. auto. Qed.

Example ex_history_idle : h_units (q_host (run_q 0 (init_q [(2, 3)]) ex_history)) = [].
Proof. vm_compute. reflexivity. Qed.

Example ex_history_restored :
  held (q_net (run_q 0 (init_q [(2, 3)]) ex_history)) 0 = held (q_net (init_q [(2, 3)])) 0.
Proof. exact (proj1 (stop_restores [(2, 3)] 0 ex_history ex_history_fresh ex_history_idle)). Qed.
