"""H-conc: concurrent operations on the real Perspective-Broker network under a seeded, replayable scheduler.

A *scenario* is  {caps, prefix, ops, coins}:
  prefix  sequential program (net_run symbolic format: handles named by the index of the creating prefix op),
  ops     2..4 operations issued concurrently afterwards (each by its own client), same format,
  coins   {qubit identity: [bits]} - the j-th random measurement draw on a qubit takes the j-th bit, in every run.
A *schedule* is a list of choices
  ["c", i, j, k]   deliver the first k pending messages i -> j of link (i, j)   (requests of node i to node j)
  ["s", i, j, k]   deliver the first k pending messages j -> i of link (i, j)   (answers of node j to node i)
  ["o"]            the next operation of the batch is issued (operations overlap; they need not start in the same instant)
  ["t"]            advance the virtual clock to the next timer
  ["i", dt]        let dt seconds pass without reaching a timer (message latency)
plus the seed of the lock back-off draws (random.uniform(1, 4) in _lock_nodes) and of the timer tie-break jitter.
Nothing in /repo is edited: lock events are tapped by wrapping methods from outside, the operation that causes an
event is followed through inlineCallbacks and across PB by a contextvar."""
import contextvars
import itertools
import random

from twisted.spread import pb

import net_pb
import net_run as R
import net_sync as N

OP = contextvars.ContextVar("conc_op", default=None)

BUDGET = 300.0


# ------------------------------------------------------------------------------------------------------------------
# taps (installed once per interpreter; silent unless env.trace is a list)
# ------------------------------------------------------------------------------------------------------------------
class ScriptedRandom:
    """stands for the module `random` inside virtual.py: the back-off of _lock_nodes"""
    def __init__(self, env):
        self.env = env

    def uniform(self, a, b):
        v = self.env.backoff_rng.uniform(a, b)
        log(self.env, ("backoff", OP.get(), round(v, 6)))
        return v


def log(env, ev):
    if env.trace is not None:
        env.trace.append(ev)


def mine(env, node):
    """taps ignore objects of earlier networks (their suspended generators run `finally` blocks when garbage-collected)"""
    return env.trace is not None and id(node) in env.live_nodes


def nidx(node):
    return int(node.myID.name[1:])


def install(env):
    if getattr(env, "conc_installed", False):
        return env
    env.conc_installed = True
    try:                                   # PB logs every remote exception; they are results here, not noise for stderr
        from twisted.logger import globalLogBeginner
        globalLogBeginner.beginLoggingTo([lambda e: None], redirectStandardIO=False, discardBuffer=True)
    except Exception:
        pass
    V, Q = env.V, env.Q
    env.trace = None
    env.backoff_rng = random.Random(0)
    env.jitter_rng = None
    env.coinfn = None
    env.holder = {}
    env.rid = 0
    env.live_nodes = set()
    V.random = ScriptedRandom(env)

    # ---- `set([local_node, control_sim_node, target_sim_node])` in _lock_nodes iterates in hash order, and Host objects hash by
    # address: the order of the lock requests / releases would differ from process to process.  A seeded permutation instead.
    env.host_rank = {}
    N.FakeHost.__hash__ = lambda self: env.host_rank.get(self.name, self.port)

    # ---- timer tie-break: same-instant timers fire in a seeded order -------------------------------------------------
    def wrap_clock(clock):
        orig_callLater = clock.callLater

        def callLater(delay, f, *a, **kw):
            if env.jitter_rng is not None and delay > 0:
                delay = delay + env.jitter_rng.random() * 1e-3
            return orig_callLater(delay, f, *a, **kw)
        clock.callLater = callLater
    wrap_clock(env.clock)
    env.clock_hooks.append(wrap_clock)       # net_sync gives every network a fresh clock

    # ---- node lock ---------------------------------------------------------------------------------------------------
    orig_get = V.virtualNode._get_global_lock
    orig_rel = V.virtualNode._release_global_lock

    def get_lock(self):
        if not mine(env, self):
            return orig_get(self)
        op, n = OP.get(), nidx(self)
        env.rid += 1
        rid = env.rid
        log(env, ("req", n, op, rid))
        d = orig_get(self)

        def ok(r):
            env.holder[n] = (op, rid)
            log(env, ("acq", n, op, rid))
            return r

        def bad(f):
            log(env, ("cancel", n, op, rid))
            return f
        d.addCallbacks(ok, bad)
        return d

    def rel_lock(self):
        if not mine(env, self):
            return orig_rel(self)
        n = nidx(self)
        was = self._lock.locked
        h = env.holder.get(n) if was else None
        log(env, ("rel", n, OP.get(), h[0] if h else None, h[1] if h else None, was))
        if was:
            env.holder[n] = None
        return orig_rel(self)
    V.virtualNode._get_global_lock = get_lock
    V.virtualNode._release_global_lock = rel_lock

    # ---- _lock_nodes: entry / timeout branch -------------------------------------------------------------------------
    orig_ln = V.virtualQubit._lock_nodes

    def lock_nodes(self, target):
        if mine(env, self.virtNode.root):
            nodes = sorted({int(x.name[1:]) for x in (self.virtNode, self.simNode, target.simNode)})
            log(env, ("lockn", OP.get(), nodes))
        return orig_ln(self, target=target)
    V.virtualQubit._lock_nodes = lock_nodes

    class TapDeferredList(V.DeferredList):
        def cancel(self):
            if OP.get() is not None:
                log(env, ("timeout", OP.get()))
            return super().cancel()
    V.DeferredList = TapDeferredList

    # ---- qubit locks -------------------------------------------------------------------------------------------------
    orig_qlock, orig_qunlock = Q.simulatedQubit.lock, Q.simulatedQubit.unlock

    def qlock(self):
        if not mine(env, self.node.root):
            return orig_qlock(self)
        op, n = OP.get(), int(self.node.name[1:])
        log(env, ("qreq", n, self.simNum, op))
        d = orig_qlock(self)
        d.addCallback(lambda r: (log(env, ("qacq", n, self.simNum, op)), r)[1])
        return d

    def qunlock(self):
        if mine(env, self.node.root):
            log(env, ("qrel", int(self.node.name[1:]), self.simNum, OP.get(), self._lock.locked))
        return orig_qunlock(self)
    Q.simulatedQubit.lock = qlock
    Q.simulatedQubit.unlock = qunlock

    # ---- measurement coin attached to the qubit, not to global order -------------------------------------------------
    orig_mi = Q.simulatedQubit.remote_measure_inplace

    def measure_inplace(self):
        if env.coinfn is None:
            return orig_mi(self)
        key, coin = env.coinfn(self)
        env.coins[:] = [coin]
        try:
            return orig_mi(self)
        finally:
            if not env.coins:
                env.coin_used(key)
            env.coins[:] = []
    Q.simulatedQubit.remote_measure_inplace = measure_inplace

    # ---- the operation id travels with every PB request --------------------------------------------------------------
    env.tags = {}
    env.peer = {}
    orig_send = pb.Broker._sendMessage
    orig_msg = pb.Broker.proto_message

    def send_message(self, prefix, perspective, objectID, message, args, kw):
        r = orig_send(self, prefix, perspective, objectID, message, args, kw)
        if env.trace is not None:
            env.tags[(id(self), self.currentRequestID)] = OP.get()
        return r

    def proto_message(self, requestID, objectID, message, answerRequired, netArgs, netKw):
        if env.trace is None or id(self) not in env.peer:
            return orig_msg(self, requestID, objectID, message, answerRequired, netArgs, netKw)
        op = env.tags.pop((env.peer[id(self)], requestID), None)
        ctx = contextvars.copy_context()

        def go():
            OP.set(op)
            return orig_msg(self, requestID, objectID, message, answerRequired, netArgs, netKw)
        return ctx.run(go)
    pb.Broker._sendMessage = send_message
    pb.Broker.proto_message = proto_message
    return env


# ------------------------------------------------------------------------------------------------------------------
# a network with a history
# ------------------------------------------------------------------------------------------------------------------
class Ident(dict):
    def __getitem__(self, k):
        return k


def norm_err(e):
    return type(e).__name__


class World:
    """network + prefix; qubits are named by identity (`oid` = index of the creating `new`), handles by the index of the
    creating operation (prefix index, or 1000 + k for the k-th concurrent operation)"""
    def __init__(self, env, scn, use_pb):
        self.env, self.scn, self.pb = env, scn, use_pb
        caps = scn["caps"]
        self.names = ["N%d" % i for i in range(len(caps))]
        env.clock.calls[:] = []
        if use_pb:
            env.peer.clear()
            env.tags.clear()
            self.net = net_pb.make_pb_network(env, self.names, [c[0] for c in caps], [c[1] for c in caps])
            for p in self.net.pumps.values():
                env.peer[id(p.client)] = id(p.server)
                env.peer[id(p.server)] = id(p.client)
        else:
            self.net = N.make_network(env, self.names, [c[0] for c in caps], [c[1] for c in caps])
        env.live_nodes = {id(n) for n in self.net.nodes}
        self.handle = {}       # handle name -> virtualQubit object
        self.oid = {}          # handle name -> qubit identity
        self.keep = []
        self.coin_count = {}
        env.holder = {}

    # -- coins ---------------------------------------------------------------------------------------------------------
    def oid_of_sim(self, sim):
        for h, q in self.handle.items():
            if N.resolve(self.net, q.simQubit) is sim:
                return self.oid[h]
        for node in self.net.nodes:
            for q in node.virtQubits:
                if N.resolve(self.net, q.simQubit) is sim and id(q) in self.net.hid:
                    return self.net.hid[id(q)]
        return -1

    def coinfn(self, sim):
        o = self.oid_of_sim(sim)
        seq = self.scn.get("coins", {}).get(str(o), [0])
        j = self.coin_count.get(o, 0)
        return o, int(seq[j % len(seq)])

    def coin_used(self, o):
        self.coin_count[o] = self.coin_count.get(o, 0) + 1

    def activate(self):
        self.env.coinfn = self.coinfn
        self.env.coin_used = self.coin_used

    # -- issuing -------------------------------------------------------------------------------------------------------
    def holder_node(self, q):
        return N.node_index(self.net, q.virtNode)

    def issue(self, op):
        net = self.net
        k = op[0]
        if k == "new":
            return net.nodes[op[1]].remote_new_qubit()
        if k == "g1":
            q = self.handle[op[1]]
            return q.remote_apply_rotation((1, 0, 0), 0.3) if op[2] == "Rot" else getattr(q, "remote_apply_" + op[2])()
        if k == "g2":
            return getattr(self.handle[op[1]], "remote_%s_onto" % op[3])(self.handle[op[2]])
        if k == "send":
            q = self.handle[op[1]]
            return net.nodes[self.holder_node(q)].remote_send_qubit(q, self.names[op[2]] if op[2] < len(self.names) else "Nowhere")
        if k == "meas":
            return self.handle[op[1]].remote_measure(inplace=bool(op[2]))
        raise ValueError(op)

    def register(self, name, op, box):
        """result of a finished operation in comparable form; new handles get their names"""
        if not box.done:
            return ("hang",)
        if box.status == "err":
            return ("err", norm_err(box.value))
        v = box.value
        if op[0] == "new":
            self.handle[name], self.oid[name] = v, name
            self.keep.append(v)
            self.net.hid[id(v)] = name
            return ("ok", v.num)
        if op[0] == "send" and v is not None:
            q = self.net.nodes[op[2]].remote_get_virtual_ref(v)
            if q is not None and id(q) not in self.net.hid:
                self.handle[name], self.oid[name] = q, self.oid[op[1]]
                self.keep.append(q)
                self.net.hid[id(q)] = self.oid[op[1]]
            return ("ok", v)
        return ("ok", v)

    def settle_one(self, box, horizon=40.0):
        env, net = self.env, self.net
        t = 0.0
        if self.pb:
            net_pb.flush(net)
        while t < horizon:
            calls = env.clock.getDelayedCalls()
            if not calls:
                break
            dt = max(min(c.getTime() for c in calls) - env.clock.seconds(), 0.0)
            env.clock.advance(dt)
            t += dt + 1e-9
            if self.pb:
                net_pb.flush(net)

    def run_prefix(self):
        self.activate()
        for i, op in enumerate(self.scn["prefix"]):
            box = net_pb.Box(_as_deferred(self.issue(tuple(op))))
            self.settle_one(box)
            r = self.register(i, op, box)
            if r[0] != "ok":
                raise RuntimeError("prefix operation %d %r failed: %r" % (i, op, r))
        self.env.clock.calls[:] = []

    # -- observation ---------------------------------------------------------------------------------------------------
    def snapshot(self):
        net = self.net
        try:
            d = N.dump(net)
            graph = N.object_graph_invariant(net)
        except Exception as e:           # bookkeeping so broken that it cannot be walked (a held qubit without a backing qubit...)
            return {"dump": ("unwalkable", type(e).__name__), "live": [], "rho": None, "locks": N.locks_held(net),
                    "graph": ["bookkeeping cannot be walked: %s" % e]}
        live = sorted({v[0] for nd in d for v in nd["virt"]})
        rho = None
        if -1 not in live and len(live) <= 8 and not graph:
            try:
                rho = R.impl_joint_rho(net, Ident(), live)
            except Exception:
                rho = None
        return {"dump": d, "live": live, "rho": rho, "locks": N.locks_held(net), "graph": graph}


def _as_deferred(d):
    from twisted.internet.defer import Deferred, succeed
    return d if isinstance(d, Deferred) else succeed(d)


# ------------------------------------------------------------------------------------------------------------------
# sequential references: every order of the concurrent operations
# ------------------------------------------------------------------------------------------------------------------
def sequential_runs(env, scn):
    out = []
    n = len(scn["ops"])
    for perm in itertools.permutations(range(n)):
        env.trace = None
        w = World(env, scn, use_pb=False)
        w.run_prefix()
        res = [None] * n
        for k in perm:
            op = tuple(scn["ops"][k])
            box = net_pb.Box(_as_deferred(w.issue(op)))
            w.settle_one(box)
            res[k] = w.register(1000 + k, op, box)
        snap = w.snapshot()
        out.append({"order": list(perm), "results": res, "snap": snap,
                    "complete": all(r[0] != "hang" for r in res) and not snap["locks"]})
        env.clock.calls[:] = []
    env.coinfn = None
    return out


# ------------------------------------------------------------------------------------------------------------------
# the scheduler
# ------------------------------------------------------------------------------------------------------------------
def options(net, clock):
    opts = []
    for key in sorted(net.pumps):
        p = net.pumps[key]
        if p.clientIO.stream:
            opts.append(("c", key[0], key[1], len(p.clientIO.stream)))
        if p.serverIO.stream:
            opts.append(("s", key[0], key[1], len(p.serverIO.stream)))
    return opts


def deliver(net, side, i, j, k):
    p = net.pumps[(i, j)]
    src, dst = (p.clientIO, p.serverIO) if side == "c" else (p.serverIO, p.clientIO)
    msgs, src.stream = src.stream[:k], src.stream[k:]
    if msgs:
        dst.bufferReceived(b"".join(msgs))
    return bool(msgs)


class Result:
    pass


# ------------------------------------------------------------------------------------------------------------------
# the lock behaviour model L expects of an operation (coq/theories/Conc/Model.v), and the event trace in Coq syntax
# ------------------------------------------------------------------------------------------------------------------
def lock_kind(w, ops, op):
    """static classification from the placement at issue time.  When a two-qubit gate runs concurrently the simulating node of a
    qubit may move while another operation waits (`_lock_simulating_node` re-checks): such operations get the permissive kind."""
    net = w.net
    merges = sum(1 for o in ops if o[0] == "g2")
    if op[0] == "new":
        return "KOne %d" % op[1]
    q = w.handle[op[1]]
    if op[0] == "g2":
        t = w.handle[op[2]]
        if q.active != 1 or t.active != 1:
            return "KNop"
        return "KGate2 %d" % w.holder_node(q)
    if q.active != 1:
        return "KNop"
    if merges:
        return "KAny"
    sim = N.node_index(net, q.simNode)
    if op[0] in ("g1", "meas"):
        return "KOne %d" % sim
    a, t = w.holder_node(q), op[2]
    if t >= len(net.nodes):
        return "KNop"                           # unknown target: refused before any lock is requested
    if sim in (a, t):
        return "KSend %d %d" % (a, t)
    return "KSend3 %d %d %d" % (a, sim, t)


def coq_events(res):
    """lock-level events of a run as Coq terms; None when an event could not be attributed to an operation"""
    out = []
    local = {k: int(kind.split()[1]) for k, kind in enumerate(res.kinds) if kind.startswith("KGate2")}
    for ev in res.trace:
        t = ev[0]
        if t == "issue":
            out.append("EIssue %d" % ev[1])
        elif t == "lockn":
            out.append("ELockn %d [%s]" % (ev[1], ";".join(str(n) for n in ev[2] if n != local.get(ev[1]))))
        elif t in ("req", "acq"):
            if ev[2] is None:
                return None
            out.append("%s %d %d %d" % ("EReq" if t == "req" else "EAcq", ev[1], ev[2], ev[3]))
        elif t == "rel":
            if ev[2] is None:
                return None
            out.append("ERel %d %d %s" % (ev[1], ev[2], "true" if ev[5] else "false"))
        elif t == "timeout":
            out.append("ETimeout %d" % ev[1])
        elif t == "done":
            out.append("EDone %d" % ev[1])
    return out


def coq_case(res):
    evs = coq_events(res)
    if evs is None:
        return None
    done = [k for k, r in enumerate(res.results) if r[0] != "hang"]
    held = sorted(x[1] for x in res.snap["locks"] if x[0] == "node")
    strict = 1 if (res.quiescent or not any(k.startswith(("KGate2", "KAny")) for k in res.kinds)) else 0
    return "(%d, [%s], [%s], [%s], [%s], %d)" % (res.nnodes, "; ".join(res.kinds), "; ".join(evs), ";".join(map(str, done)),
                                                 ";".join(map(str, held)), strict)


def run_concurrent(env, scn, seed=0, schedule=None, p_tick=0.15, p_idle=0.1, budget=BUDGET):
    """one concurrent execution. schedule=None: choices drawn from Random(seed) and recorded; otherwise replayed."""
    install(env)
    env.trace = None
    w = World(env, scn, use_pb=True)
    w.run_prefix()
    rng = random.Random(seed)
    env.backoff_rng = random.Random(seed * 7919 + 1)
    env.jitter_rng = random.Random(seed * 104729 + 2)
    perm = list(range(len(w.names)))
    random.Random(seed * 31 + 3).shuffle(perm)
    env.host_rank = {n: perm[i] for i, n in enumerate(w.names)}
    env.trace = []
    env.rid = 0
    env.tags.clear()
    w.activate()
    net, clock = w.net, env.clock
    t0 = clock.seconds()
    boxes = []
    ops = [tuple(o) for o in scn["ops"]]
    issuers = [op[1] if op[0] == "new" else w.holder_node(w.handle[op[1]]) for op in ops]
    kinds = []
    nxt_op = [0]

    def issue_next():
        k = nxt_op[0]
        op = ops[k]
        nxt_op[0] += 1
        kinds.append(lock_kind(w, ops, op))          # as the placement is when the operation is issued
        ctx = contextvars.copy_context()

        def go():
            OP.set(k)
            log(env, ("issue", k))
            try:
                return _as_deferred(w.issue(op))
            except Exception as e:         # a synchronous raise is a result too
                from twisted.internet.defer import fail
                return fail(e)
        b = net_pb.Box(ctx.run(go))
        b.k = k
        boxes.append(b)
    done_logged = set()
    rec = []
    replay = list(schedule) if schedule is not None else None
    steps = 0
    quiescent = False
    p_issue = rng.choice([1.0, 1.0, 0.5, 0.2]) if schedule is None else 1.0
    # in a third of the runs one link (one pair of nodes, both directions) is starved: its bytes move only when nothing else can,
    # which produces the long overtakings between connections that uniform choices rarely reach
    starve = None
    if schedule is None and len(net.nodes) > 1 and rng.random() < 0.34:
        a_, b_ = rng.sample(range(len(net.nodes)), 2)
        starve = {(a_, b_), (b_, a_)}
    # another third runs under priorities (PCT, Burckhardt et al. 2010): every link gets a random priority, the deliverable link of
    # highest priority always moves, and at two random steps the link that just moved drops below all others. A race that needs
    # d ordering constraints is hit with probability >= 1/(n k^(d-1)) whatever the length of the run.
    prio = None
    if schedule is None and starve is None and rng.random() < 0.5:
        prio = {}
        change = {rng.randrange(1, 80) for _ in range(2)}
        low = [0.0]
        ndel = [0]
    while True:
        for b in boxes:
            if b.done and b.k not in done_logged:
                done_logged.add(b.k)
                log(env, ("done", b.k, b.status))
        opts = options(net, clock)
        calls = clock.getDelayedCalls()
        unissued = nxt_op[0] < len(ops)
        if not opts and not calls and not unissued:
            quiescent = True
            break
        if clock.seconds() - t0 > budget:
            while nxt_op[0] < len(ops):      # never happens with the generators below; keeps the result list total
                issue_next()
            break
        if replay is not None:
            if not replay:
                # a recorded schedule ends at quiescence or at the budget; a diverging replay is finished deterministically
                ch = ["o"] if unissued else (["t"] if (calls and not opts) else (list(opts[0]) if opts else ["t"]))
            else:
                ch = replay.pop(0)
        else:
            if unissued and ((not opts and not calls) or rng.random() < p_issue):
                ch = ["o"]
            elif opts and calls:
                u = rng.random()
                if u < p_tick:
                    ch = ["t"]
                elif u < p_tick + p_idle:
                    nxt = min(c.getTime() for c in calls) - clock.seconds()
                    ch = ["i", round(rng.random() * max(nxt, 0.0) * 0.95, 6)]
                else:
                    ch = None
            elif calls:
                ch = ["t"]
            else:
                ch = None
            if ch is None:
                if prio is not None:
                    for o in opts:
                        if (o[0], o[1], o[2]) not in prio:
                            prio[(o[0], o[1], o[2])] = rng.random()
                    o = max(opts, key=lambda o: prio[(o[0], o[1], o[2])])
                    ndel[0] += 1
                    if ndel[0] in change:
                        low[0] -= 1.0
                        prio[(o[0], o[1], o[2])] = low[0]
                else:
                    pool = [o for o in opts if starve is None or (o[1], o[2]) not in starve] or opts
                    o = rng.choice(pool)
                k = o[3] if rng.random() < 0.4 else 1
                ch = [o[0], o[1], o[2], k]
        rec.append(ch)
        steps += 1
        if ch[0] == "o":
            if unissued:
                issue_next()
        elif ch[0] == "t":
            if calls:
                dt = max(min(c.getTime() for c in calls) - clock.seconds(), 0.0)
                log(env, ("tick", round(clock.seconds() - t0 + dt, 6)))
                clock.advance(dt)
        elif ch[0] == "i":
            clock.advance(ch[1])
        else:
            deliver(net, ch[0], ch[1], ch[2], ch[3])
    boxes.sort(key=lambda b: b.k)
    trace = env.trace
    env.trace = None
    res = Result()
    res.world = w
    res.issuers = issuers
    res.kinds = kinds
    res.nnodes = len(net.nodes)
    res.schedule = rec
    res.seed = seed
    res.trace = trace
    res.quiescent = quiescent
    res.elapsed = clock.seconds() - t0
    res.boxes = boxes
    res.results = [w.register(1000 + b.k, ops[b.k], b) for b in boxes]
    res.snap = w.snapshot()
    res.steps = steps
    env.coinfn = None
    env.jitter_rng = None
    env.host_rank = {}
    clock.calls[:] = []
    return res


def dispose(res):
    """drop a finished run: its hung generators run their `finally` blocks now, outside any trace"""
    import gc
    import sys
    hook, sys.unraisablehook = sys.unraisablehook, (lambda *a: None)       # "generator ignored GeneratorExit" of hung operations
    try:
        res.world = None
        gc.collect()
    finally:
        sys.unraisablehook = hook


# ------------------------------------------------------------------------------------------------------------------
# oracles (plain Python, independent of any model)
# ------------------------------------------------------------------------------------------------------------------
def c04_verdict(res):
    """C04: every operation completed within the budget, and no node / qubit lock is held afterwards"""
    hung = [k for k, r in enumerate(res.results) if r[0] == "hang"]
    return {"hung": hung, "locks": res.snap["locks"], "ok": not hung and not res.snap["locks"]}


def same_state(a, b):
    import oracle_np as O
    if a["dump"] != b["dump"]:
        return False
    if a["rho"] is None or b["rho"] is None:
        return a["rho"] is None and b["rho"] is None
    return a["live"] == b["live"] and O.close(a["rho"], b["rho"])


def c03_verdict(res, seqs):
    """C03: (results, bookkeeping, joint state) equal those of some sequential order"""
    matches = [s["order"] for s in seqs if s["complete"] and s["results"] == res.results and same_state(s["snap"], res.snap)]
    return {"ok": bool(matches), "orders": matches,
            "applicable": any(s["complete"] for s in seqs)}


# ------------------------------------------------------------------------------------------------------------------
# classification of a failed run by its trigger (for the listed findings); everything else stays a violation
# ------------------------------------------------------------------------------------------------------------------
def analyse(res, scn):
    """facts read off the event trace.  A lock request of a `_lock_nodes` attempt is matched with its attempt in FIFO order per
    (operation, node) (one request per node per attempt, PB links are FIFO), so that requests still in flight when the timeout
    branch is taken are recognised as orphans when they arrive."""
    ops = [tuple(o) for o in scn["ops"]]
    tr = res.trace
    pending = {}            # rid -> (node, op)          requests that arrived and were neither granted nor cancelled
    holder = {}             # node -> (op, rid)
    timeouts = []
    foreign = []            # releases of a lock held by another operation (or by an orphaned request)
    orphan_acq = []
    att_nodes, att_acq, att_dead = {}, {}, set()       # attempt id -> nodes / nodes granted / timed out
    cur_att = {}            # op -> current attempt id
    outstanding = {}        # (op, node) -> attempt ids whose request has not arrived yet
    rid_att = {}
    natt = 0

    def is_orphan(rid):
        return rid_att.get(rid) in att_dead and rid in orphan_rids
    orphan_rids = set()
    for ev in tr:
        if ev[0] == "lockn":
            natt += 1
            cur_att[ev[1]] = natt
            att_nodes[natt], att_acq[natt] = list(ev[2]), set()
            for n in ev[2]:
                outstanding.setdefault((ev[1], n), []).append(natt)
        elif ev[0] == "req":
            pending[ev[3]] = (ev[1], ev[2])
            q = outstanding.get((ev[2], ev[1]))
            if q:
                a = q.pop(0)
                rid_att[ev[3]] = a
                if a in att_dead:
                    orphan_rids.add(ev[3])
        elif ev[0] == "acq":
            pending.pop(ev[3], None)
            holder[ev[1]] = (ev[2], ev[3])
            a = rid_att.get(ev[3])
            if ev[3] in orphan_rids:
                orphan_acq.append({"node": ev[1], "op": ev[2]})
            elif a is not None:
                att_acq[a].add(ev[1])
        elif ev[0] == "cancel":
            pending.pop(ev[3], None)
        elif ev[0] == "rel":
            if ev[5] and ev[3] is not None and (ev[3] != ev[2] or ev[4] in orphan_rids):
                foreign.append({"node": ev[1], "by": ev[2], "owner": ev[3], "owner_is_orphan": ev[4] in orphan_rids})
            if ev[5]:
                holder[ev[1]] = None
        elif ev[0] == "timeout":
            a = cur_att.get(ev[1])
            if a is None:
                continue
            att_dead.add(a)
            pend = [n for n in att_nodes[a] if n not in att_acq[a]]
            timeouts.append({"op": ev[1], "pending_nodes": pend})
            for rid, aa in rid_att.items():
                if aa == a and rid in pending:
                    orphan_rids.add(rid)
    waits = {}
    for rid, (node, op) in pending.items():
        if rid in orphan_rids:
            continue
        h = holder.get(node)
        waits.setdefault(op, set()).add((node, h[0] if h else None, h[1] if h else None))
    return {"timeouts": timeouts, "foreign_releases": foreign, "orphan_acquired": orphan_acq,
            "orphans_pending": sorted(pending[r] for r in orphan_rids if r in pending),
            "waits": {k: sorted(v, key=str) for k, v in waits.items()},
            "holder": {k: v for k, v in holder.items() if v}, "ops": ops,
            "leaked_to_orphan": sorted(n for n, v in holder.items() if v and v[1] in orphan_rids)}


def handles_of(op):
    return [op[1], op[2]] if op[0] == "g2" else ([] if op[0] == "new" else [op[1]])


def shared_consumed_handles(ops):
    """indices of operations that share a handle with a *consuming* operation (send, destructive measurement) of the batch"""
    out = set()
    for i, a in enumerate(ops):
        consuming = a[0] == "send" or (a[0] == "meas" and not a[2])
        if not consuming:
            continue
        for j, b in enumerate(ops):
            if i != j and a[1] in handles_of(b):
                out.update((i, j))
    return sorted(out)


def classify(res, scn, issuer_of=None):
    """returns (key, explanation) of the trigger class of a failing run, or (None, ...) when none of the listed classes
    explains it.  issuer_of(k) = node index of the client issuing operation k."""
    issuer_of = issuer_of or (lambda k: res.issuers[k])
    a = analyse(res, scn)
    ops = a["ops"]
    hung = [k for k, r in enumerate(res.results) if r[0] == "hang"]
    trig = [t for t in a["timeouts"] if t["pending_nodes"]]
    if trig and (a["foreign_releases"] or a["orphan_acquired"] or a["orphans_pending"]):
        t = trig[0]
        return "D6", ("_lock_nodes of operation %r took its timeout branch with lock requests still pending at nodes %r; "
                      "foreign releases %r, orphaned requests granted later %r, still polling %r"
                      % (t["op"], t["pending_nodes"], a["foreign_releases"][:3], a["orphan_acquired"][:3], a["orphans_pending"][:3]))
    shared = shared_consumed_handles(ops)
    # collateral of the same defect: the late two-qubit gate on a consumed handle leaves the qubit lock of its OTHER operand held, so an
    # operation of a third client on that other operand waits for ever (the finding's text: "a qubit lock stays held / an operation hangs")
    collateral = set()
    for k in shared:
        if ops[k][0] == "g2":
            for j, b in enumerate(ops):
                if j not in shared and set(handles_of(b)) & set(handles_of(ops[k])):
                    collateral.add(j)
    if shared and all(k in shared or k in collateral for k in hung):
        return "D23", "operations %r name the same qubit handle and one of them consumes it (send / destructive measurement)" % (shared,)
    # root causes of hangs: follow waits-for edges
    if hung:
        def is_send(k):
            return k is not None and ops[k][0] == "send"
        roots = set()
        for k in hung:
            seen, cur = [], k
            while cur is not None and cur not in seen:
                seen.append(cur)
                nxt = None
                for (_node, h, _rid) in a["waits"].get(cur, []):
                    nxt = h
                cur = nxt
            if cur is None:
                return None, "operation %d hangs without waiting for a held lock" % k
            cyc = seen[seen.index(cur):]
            roots.add(tuple(sorted(cyc)))
        keys = set()
        for cyc in roots:
            if len(cyc) == 1 and is_send(cyc[0]) and ops[cyc[0]][2] == issuer_of(cyc[0]):
                keys.add("D4")
            elif len(cyc) >= 2 and all(is_send(k) for k in cyc):
                keys.add("D5")
            else:
                return None, "wait-for cycle %r is not made of sends only" % (cyc,)
        if len(keys) == 1:
            return keys.pop(), "wait-for cycles %r" % sorted(roots)
        if keys:
            return "D4+D5", "wait-for cycles %r" % sorted(roots)
    return None, "no listed trigger"
