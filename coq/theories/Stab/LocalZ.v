(* Measurement of one qubit in the Z basis, stated position-wise on the generated group, for full stabilizer states
   (n valid generators on n qubits).  Everything is a repackaging of the theorems of C13 / C14 in the form the
   network layer uses: `zmul` for the left multiplication by (-1)^coin Z_p, `xbit` at position p for the
   commutation with Z_p, `remove_nth` for the deletion of the measured position. *)
From Coq Require Import List Bool Arith Lia.
From SQ Require Import Base.ListUtil Stab.Pauli Stab.Kernels Stab.Gates Stab.Tableau Stab.Group Stab.GroupGates
  Stab.GaussProof Stab.MeasureProof Stab.F2 Stab.TensorProof Stab.PermProof Stab.MeasureOrig Stab.Bridge
  Stab.DestructiveProof Stab.EqProof Stab.Isotropic Stab.MeasureFull Stab.DestructiveDet Net.Model.
Import ListNotations.

(* multiplication by (-1)^coin Z_p from the left, written position-wise *)
Definition zmul (coin : bool) (p : nat) (h : pstr) : pstr :=
  (padd (padd (ph_of_sign coin) (fst h)) (fst (pmul1 PZ (nth p (snd h) PI))),
   upd (snd h) p (snd (pmul1 PZ (nth p (snd h) PI)))).

Lemma pmul_zp n p s h : p < n -> length (snd h) = n ->
  pmul (s, zp n p) h = (padd (padd s (fst h)) (fst (pmul1 PZ (nth p (snd h) PI))),
                        upd (snd h) p (snd (pmul1 PZ (nth p (snd h) PI)))).
Proof.
  intros Hp HL. destruct h as [k b]. cbn [fst snd] in *. unfold pmul, zp. cbn [fst snd].
  destruct (pmul_l_upd p (repeat PI n) b PZ (nth p b PI)) as [E1 E2].
  { rewrite repeat_length. auto. }
  { rewrite repeat_length. auto. }
  rewrite (upd_same b p PI) in E1, E2.
  rewrite (pmul_l_one_l n b HL) in E1, E2. cbn [fst snd] in E1, E2.
  rewrite nth_repeat_PI in E2. cbn [pmul1 fst] in E2. rewrite padd_0_r, padd_0_l in E2.
  rewrite E1, E2. reflexivity.
Qed.

Lemma anti_zp n p l : p < n -> length l = n -> anti_l l (zp n p) = xbit (nth p l PI).
Proof.
  intros Hp HL. unfold zp.
  pose proof (anti_l_upd p l (repeat PI n) (nth p l PI) PZ) as E.
  rewrite repeat_length in E. specialize (E HL ltac:(lia)).
  rewrite (upd_same l p PI) in E. rewrite nth_repeat_PI in E.
  assert (Z : anti_l l (repeat PI n) = false).
  { rewrite <- ph_odd_pmul_l. rewrite pmul_l_one_r by auto. reflexivity. }
  rewrite Z in E.
  destruct (nth p l PI), (anti_l l (upd (repeat PI n) p PZ)); cbn in E |- *; congruence.
Qed.

Lemma nth_zp n p k : p < n -> nth k (zp n p) PI = if Nat.eqb k p then PZ else PI.
Proof.
  intros Hp. unfold zp. destruct (Nat.eqb_spec k p) as [->|Hk].
  - apply nth_upd_eq. rewrite repeat_length. auto.
  - rewrite nth_upd_neq by auto. apply nth_repeat_PI.
Qed.

Lemma remove_at_nth p (l : list pauli) : remove_at p l = remove_nth p l.
Proof.
  unfold remove_at. revert l. induction p as [|p IH]; intros [|x l]; cbn; auto.
  f_equal. apply IH.
Qed.

Lemma random_branch_iff n p t : p < n -> wf_tab n t -> commuting n t ->
  (random_branch n p t = false <-> forall h, gen n t h -> xbit (nth p (snd h) PI) = false).
Proof.
  intros Hp W C. split.
  - intros Hr h G. destruct (meas_determined n p false t Hp W C Hr) as (res & _ & _ & _ & _ & _ & K).
    rewrite <- (anti_zp n p (snd h) Hp (gen_length _ _ _ G)). apply K. exact G.
  - intros K. apply random_branch_false_of_commute; auto.
    intros h G. rewrite (anti_zp n p (snd h) Hp (gen_length _ _ _ G)). apply K. exact G.
Qed.

(* a full stabilizer state: n valid generators on n qubits *)
Definition full (n : nat) (t : tab) : Prop := valid n t /\ length t = n.

Lemma full0_nil t : full 0 t -> t = [].
Proof. intros [_ L]. destruct t; [reflexivity | discriminate L]. Qed.

Lemma full_nil : full 0 [].
Proof.
  split; [|reflexivity]. split; [constructor|]. split.
  - intros a b [].
  - intros sel L _. destruct sel; [reflexivity | discriminate L].
Qed.

Lemma full_gate1 g n p t : full n t -> p < n -> full n (tab_gate1 g n p t).
Proof.
  intros [(W & C & I) L] Hp. split; [split; [|split]|].
  - apply gate1_preserves_wf; auto.
  - apply gate1_preserves_commuting; auto.
  - apply gate1_preserves_independent; auto.
  - rewrite tab_gate1_map, map_length. exact L.
Qed.

Lemma full_gate2 g n c t' t : full n t -> c < n -> t' < n -> c <> t' -> full n (tab_gate2 g n c t' t).
Proof.
  intros [(W & C & I) L] Hc Ht Hne. split; [split; [|split]|].
  - apply gate2_preserves_wf; auto.
  - apply gate2_preserves_commuting; auto.
  - apply gate2_preserves_independent; auto.
  - rewrite tab_gate2_map, map_length. exact L.
Qed.

Lemma full_tensor n1 t1 n2 t2 : full n1 t1 -> full n2 t2 -> full (n1 + n2) (tensor n1 t1 n2 t2).
Proof.
  intros F1 F2.
  assert (Z1 : n1 = 0 -> t1 = []) by (intros ->; apply full0_nil; exact F1).
  assert (Z2 : n2 = 0 -> t2 = []) by (intros ->; apply full0_nil; exact F2).
  destruct F1 as [(W1 & C1 & I1) L1], F2 as [(W2 & C2 & I2) L2].
  split; [split; [|split]|].
  - apply tensor_wf; auto.
  - apply tensor_commuting; auto.
  - apply tensor_independent; auto.
  - rewrite tensor_length by auto. lia.
Qed.

Lemma full_add_qubit n t : full n t -> full (n + 1) (add_qubit n t).
Proof.
  intros F.
  assert (Z : n = 0 -> t = []) by (intros ->; apply full0_nil; exact F).
  destruct F as [(W & C & I) L].
  destruct (add_qubit_valid n t W Z C I) as (W' & C' & I' & L').
  split; [split; [|split]|]; auto. lia.
Qed.

Lemma full_zero1 : full 1 (add_qubit 0 []).
Proof. exact (full_add_qubit 0 [] full_nil). Qed.

Lemma gen_full0 t g : full 0 t -> (gen 0 t g <-> g = (P0, [])).
Proof.
  intros F. rewrite (full0_nil t F). split.
  - intros G. apply gen_nil in G. exact G.
  - intros ->. exact (gen_one 0 []).
Qed.

(* in a full (indeed any valid) state the identity string only occurs with phase +1 *)
Lemma gen_identity_phase n t k : valid n t -> gen n t (k, repeat PI n) -> k = P0.
Proof.
  intros (W & C & I) G.
  pose proof (gen_sign_unique n t C I _ _ G (gen_one n t) eq_refl) as E.
  unfold pone in E. congruence.
Qed.

Lemma meas_inplace_spec n p coin t : p < n -> full n t ->
  exists o t1, measure n p true coin t = (o, n, t1) /\ full n t1 /\
   (if random_branch n p t
    then o = coin /\
         forall g, gen n t1 g <->
           exists h, gen n t h /\ xbit (nth p (snd h) PI) = false /\ (g = h \/ g = zmul coin p h)
    else same_group n t1 t /\ (o = false <-> gen n t (zel P0 n p)) /\ (o = true <-> gen n t (zel P2 n p))).
Proof.
  intros Hp [V L]. pose proof (meas_inplace_full n p coin t Hp V L) as (En & V1 & L1).
  destruct (measure n p true coin t) as [[o n'] t1] eqn:EM. cbn [fst snd] in En, V1, L1. subst n'.
  exists o, t1. split; [reflexivity|]. split; [split; assumption|].
  destruct V as (W & C & I).
  destruct (random_branch n p t) eqn:Hr.
  - destruct (meas_random n p coin t Hp W C Hr) as (res & E & _ & _ & _ & K).
    rewrite EM in E. injection E as -> ->. split; [reflexivity|].
    intros g. rewrite K. split.
    + intros (h & G & A & D). exists h. pose proof (gen_length _ _ _ G) as HL.
      rewrite anti_zp in A by auto. rewrite pmul_zp in D by auto. auto.
    + intros (h & G & A & D). exists h. pose proof (gen_length _ _ _ G) as HL.
      rewrite anti_zp by auto. rewrite pmul_zp by auto. auto.
  - destruct (meas_determined n p coin t Hp W C Hr) as (res & E & _ & _ & _ & SG & _).
    rewrite EM in E. injection E as Eo ->. split; [exact SG|].
    pose proof (meas_determined_outcome n p true coin t Hp (conj W (conj C I)) Hr) as O0.
    pose proof (meas_determined_outcome_true n p true coin t Hp (conj W (conj C I)) L Hr) as O1.
    rewrite EM in O0, O1. cbn [fst] in O0, O1. split; assumption.
Qed.

(* destructive measurement in one call: same outcome as in place, the result is the in-place group restricted to the
   elements acting trivially on p, with p deleted *)
Lemma meas_destr_spec n p coin t : p < n -> full n t ->
  exists o t1 t2, measure n p true coin t = (o, n, t1) /\ measure n p false coin t = (o, n - 1, t2) /\
    full (n - 1) t2 /\
    forall g, gen (n - 1) t2 g <->
      exists g', gen n t1 g' /\ nth p (snd g') PI = PI /\ g = (fst g', remove_nth p (snd g')).
Proof.
  intros Hp [V L]. pose proof (meas_destructive_full n p coin t Hp V L) as (En & V2 & L2).
  destruct (random_branch n p t) eqn:Hr.
  - destruct V as (W & C & I).
    destruct (meas_random_destructive n p coin t Hp W C Hr) as (res & resd & E1 & E2 & _ & _ & _ & K & _).
    rewrite E2 in En, V2, L2. cbn [fst snd] in En, V2, L2.
    exists coin, res, resd. split; [exact E1|]. split; [exact E2|]. split; [split; assumption|]. intros g; split.
    + intros G. apply K in G. destruct G as (g' & G & N & ->). exists g'. rewrite <- remove_at_nth. auto.
    + intros (g' & G & N & ->). apply K. exists g'. rewrite remove_at_nth. auto.
  - destruct (meas_determined_destructive n p coin t Hp V L Hr) as (res & resd & E1 & E2 & _ & _ & _ & _ & _ & K).
    rewrite E2 in En, V2, L2. cbn [fst snd] in En, V2, L2.
    exists (fst (fst (measure n p true coin t))), res, resd. split; [exact E1|]. split; [exact E2|]. split; [split; assumption|]. intros g; split.
    + intros G. apply K in G. destruct G as (g' & G & N & ->). exists g'. rewrite <- remove_at_nth. auto.
    + intros (g' & G & N & ->). apply K. exists g'. rewrite remove_at_nth. auto.
Qed.

(* what the virtual node does: measure in place, then measure the result destructively *)
Lemma meas_destr_after_inplace n p coin t : p < n -> full n t ->
  exists o t1 o2 t2, measure n p true coin t = (o, n, t1) /\ measure n p false coin t1 = (o2, n - 1, t2) /\
    full (n - 1) t2 /\
    forall g, gen (n - 1) t2 g <->
      exists g', gen n t1 g' /\ nth p (snd g') PI = PI /\ g = (fst g', remove_nth p (snd g')).
Proof.
  intros Hp [V L]. pose proof (meas_inplace_full n p coin t Hp V L) as (En & V1 & L1).
  pose proof (meas_repeat n p coin coin t Hp V) as (_ & _ & _ & Hr).
  destruct (measure n p true coin t) as [[o n'] t1] eqn:EM. cbn [fst snd] in En, V1, L1, Hr. subst n'.
  pose proof (meas_destructive_full n p coin t1 Hp V1 L1) as (En2 & V2 & L2).
  destruct (meas_determined_destructive n p coin t1 Hp V1 L1 Hr) as (res & resd & E1 & E2 & SG & _ & _ & _ & _ & K).
  rewrite E2 in En2, V2, L2. cbn [fst snd] in En2, V2, L2.
  exists o, t1, (fst (fst (measure n p true coin t1))), resd. split; [reflexivity|]. split; [exact E2|]. split; [split; assumption|]. intros g; split.
  - intros G. apply K in G. destruct G as (g' & G & N & ->). exists g'. rewrite <- remove_at_nth.
    apply SG in G. auto.
  - intros (g' & G & N & ->). apply K. exists g'. rewrite remove_at_nth. apply SG in G. auto.
Qed.

(* the reported outcome has non-zero probability: the opposite eigenvalue's projector does not stabilise the state *)
Lemma meas_outcome_possible n p ip coin t : p < n -> full n t ->
  ~ gen n t (zel (ph_of_sign (negb (fst (fst (measure n p ip coin t))))) n p).
Proof.
  intros Hp [V L] G. pose proof V as (W & C & I).
  destruct (random_branch n p t) eqn:Hr.
  - assert (Hf : random_branch n p t = false); [|congruence].
    apply random_branch_false_of_commute; auto.
    intros h Gh. exact (gen_commute n t C _ _ Gh G).
  - pose proof (meas_determined_outcome n p ip coin t Hp V Hr) as O0.
    pose proof (meas_determined_outcome_true n p ip coin t Hp V L Hr) as O1.
    destruct (fst (fst (measure n p ip coin t))); cbn [negb ph_of_sign] in G.
    + pose proof (proj1 O1 eq_refl) as G2.
      pose proof (gen_sign_unique n t C I _ _ G G2 eq_refl) as E. discriminate E.
    + pose proof (proj1 O0 eq_refl) as G0.
      pose proof (gen_sign_unique n t C I _ _ G G0 eq_refl) as E. discriminate E.
Qed.
