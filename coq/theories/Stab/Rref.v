(* Reduced row echelon form over GF(2): independence of the rows, uniqueness of the rref basis of a
   given row space (by leading pivots), and recognition of unit vectors in the span. *)
From Coq Require Import List Bool Arith Lia.
From SQ Require Import Base.ListUtil Stab.Kernels Stab.F2.
Import ListNotations.

(* ---------- basic facts on lin ---------- *)

Lemma lin_nil_r sel j : lin sel [] j = false.
Proof. destruct sel; reflexivity. Qed.

Lemma lin_cons s sel r A j :
  lin (s :: sel) (r :: A) j = xorb (s && get r j) (lin sel A j).
Proof. reflexivity. Qed.

(* a column where every row is 0 is 0 in every combination *)
Lemma lin_zero_col sel A j : (forall r, In r A -> get r j = false) -> lin sel A j = false.
Proof.
  revert sel; induction A as [|r A IH]; intros sel H.
  - apply lin_nil_r.
  - destruct sel as [|s sel]; [reflexivity|].
    rewrite lin_cons. rewrite (H r (or_introl eq_refl)).
    rewrite andb_false_r, xorb_false_l.
    apply IH. intros r' Hr'. apply H. right; exact Hr'.
Qed.

(* the empty selection gives the zero vector *)
Lemma lin_sel_zero sel A j : forallb negb sel = true -> lin sel A j = false.
Proof.
  revert A; induction sel as [|s sel IH]; intros A H.
  - reflexivity.
  - destruct A as [|r A]; [reflexivity|].
    simpl in H. apply andb_true_iff in H as [Hs Hsel].
    destruct s; [discriminate|].
    rewrite lin_cons. rewrite andb_false_l, xorb_false_l. apply IH; exact Hsel.
Qed.

Lemma forallb_negb_repeat n : forallb negb (repeat false n) = true.
Proof. induction n as [|n IH]; simpl; auto. Qed.

(* xor of two selections, keeping the length *)
Fixpoint selx (s t : list bool) : list bool :=
  match s, t with
  | a :: s', b :: t' => xorb a b :: selx s' t'
  | _, _ => []
  end.

Lemma selx_length s t : length s = length t -> length (selx s t) = length s.
Proof.
  revert t; induction s as [|a s IH]; intros [|b t] H; simpl in *;
    try reflexivity; try discriminate.
  f_equal. apply IH. lia.
Qed.

Lemma lin_selx s t A j : length s = length t ->
  lin (selx s t) A j = xorb (lin s A j) (lin t A j).
Proof.
  revert t A; induction s as [|a s IH]; intros [|b t] A H; simpl in H; try discriminate.
  - reflexivity.
  - destruct A as [|r A]; [reflexivity|].
    simpl selx. rewrite !lin_cons. rewrite IH by lia.
    destruct a, b, (get r j), (lin s A j), (lin t A j); reflexivity.
Qed.

(* ---------- basic facts on inspan ---------- *)

Lemma inspan_xor m A f g :
  inspan m A f -> inspan m A g -> inspan m A (fun j => xorb (f j) (g j)).
Proof.
  intros [s [Hs Hf]] [t [Ht Hg]]. exists (selx s t). split.
  - rewrite selx_length; lia.
  - intros j Hj. cbv beta. rewrite lin_selx by lia.
    rewrite (Hf j Hj), (Hg j Hj). reflexivity.
Qed.

Lemma inspan_head m r A : inspan m (r :: A) (get r).
Proof.
  exists (true :: repeat false (length A)). split.
  - simpl. rewrite repeat_length. reflexivity.
  - intros j _. rewrite lin_cons.
    rewrite (lin_sel_zero _ A j (forallb_negb_repeat (length A))).
    rewrite xorb_false_r. reflexivity.
Qed.

Lemma inspan_nil m f : inspan m [] f -> forall j, j < m -> f j = false.
Proof. intros [sel [_ Hf]] j Hj. rewrite (Hf j Hj). apply lin_nil_r. Qed.

Lemma inspan_zero_col m A f j :
  j < m -> (forall r, In r A -> get r j = false) -> inspan m A f -> f j = false.
Proof. intros Hj H [sel [_ Hf]]. rewrite (Hf j Hj). apply lin_zero_col; exact H. Qed.

(* ---------- lead ---------- *)

Lemma lead_unique m r c c' : lead m r c -> lead m r c' -> c = c'.
Proof.
  intros [_ [H1 H2]] [_ [H1' H2']].
  destruct (lt_eq_lt_dec c c') as [[Hlt|Heq]|Hgt]; auto.
  - rewrite (H2' c Hlt) in H1. discriminate.
  - rewrite (H2 c' Hgt) in H1'. discriminate.
Qed.

Lemma lead_eqm m r r' c : eqm m r r' -> lead m r c -> lead m r' c.
Proof.
  intros He [Hc [H1 H2]]. split; [exact Hc|]. split.
  - rewrite <- (He c Hc). exact H1.
  - intros j Hj. rewrite <- (He j) by lia. apply H2; exact Hj.
Qed.

(* ---------- rref ---------- *)

Lemma rref_inv m r A : rref m (r :: A) ->
  exists c, lead m r c /\
    (forall r', In r' A -> forall j, j <= c -> get r' j = false) /\
    (forall r' c', In r' A -> lead m r' c' -> get r c' = false) /\
    rref m A.
Proof.
  intros H. inversion H as [|r0 c A0 H1 H2 H3 H4]; subst. exists c; auto.
Qed.

(* a combination of an rref matrix that vanishes on every leading column selects no row *)
Lemma rref_sel_zero m A : rref m A -> forall sel, length sel = length A ->
  (forall r c, In r A -> lead m r c -> lin sel A c = false) -> forallb negb sel = true.
Proof.
  induction 1 as [|r c A Hlead Hbelow Habove Hrref IH]; intros sel Hlen Hz.
  - destruct sel; [reflexivity|discriminate].
  - destruct sel as [|s sel]; [discriminate|]. simpl in Hlen.
    assert (Hs : s = false).
    { specialize (Hz r c (or_introl eq_refl) Hlead). rewrite lin_cons in Hz.
      destruct Hlead as [_ [Hrc _]]. rewrite Hrc in Hz.
      rewrite (lin_zero_col sel A c) in Hz.
      - rewrite andb_true_r, xorb_false_r in Hz. exact Hz.
      - intros r' Hr'. apply (Hbelow r' Hr'). lia. }
    subst s. simpl. apply IH; [lia|].
    intros r' c' Hr' Hl'. specialize (Hz r' c' (or_intror Hr') Hl').
    rewrite lin_cons in Hz. rewrite andb_false_l, xorb_false_l in Hz. exact Hz.
Qed.

Theorem rref_lindep m A : rref m A -> lindep m A.
Proof.
  intros HR sel Hlen Hz. apply (rref_sel_zero m A HR sel Hlen).
  intros r c _ [Hc _]. apply Hz; exact Hc.
Qed.

(* an rref matrix whose span is {0} is empty *)
Lemma rref_span_zero_nil m A : rref m A ->
  (forall f, inspan m A f -> forall j, j < m -> f j = false) -> A = [].
Proof.
  intros HR H. destruct HR as [|r c A [Hc [Hrc _]] _ _ _]; [reflexivity|].
  rewrite (H (get r) (inspan_head m r A) c Hc) in Hrc. discriminate.
Qed.

(* span of the tail = elements of the span with a 0 on the leading column of the head *)
Lemma inspan_tail m r c A f : lead m r c -> (forall r', In r' A -> get r' c = false) ->
  (inspan m A f <-> inspan m (r :: A) f /\ f c = false).
Proof.
  intros [Hc [Hrc _]] Hz. split.
  - intros Hin. split.
    + destruct Hin as [sel [Hlen Hf]]. exists (false :: sel). split; [simpl; lia|].
      intros j Hj. rewrite lin_cons. rewrite andb_false_l, xorb_false_l. apply Hf; exact Hj.
    + apply (inspan_zero_col m A f c Hc Hz Hin).
  - intros [[sel [Hlen Hf]] Hfc]. destruct sel as [|s sel]; [discriminate|].
    simpl in Hlen.
    assert (Hs : s = false).
    { rewrite (Hf c Hc) in Hfc. rewrite lin_cons, Hrc, (lin_zero_col sel A c Hz) in Hfc.
      rewrite andb_true_r, xorb_false_r in Hfc. exact Hfc. }
    subst s. exists sel. split; [lia|].
    intros j Hj. rewrite (Hf j Hj). rewrite lin_cons.
    rewrite andb_false_l, xorb_false_l. reflexivity.
Qed.

(* every element of the span vanishes before the leading column of the head *)
Lemma inspan_before_lead m r c A f j : lead m r c ->
  (forall r', In r' A -> forall j, j <= c -> get r' j = false) ->
  inspan m (r :: A) f -> j < c -> f j = false.
Proof.
  intros [Hc [_ Hr]] Hb Hin Hj. apply (inspan_zero_col m (r :: A) f j); [lia| |exact Hin].
  intros r' [<-|Hr']; [apply Hr; exact Hj | apply (Hb r' Hr'); lia].
Qed.

Lemma Forall2_In_l {X Y} (R : X -> Y -> Prop) l l' x :
  Forall2 R l l' -> In x l -> exists y, In y l' /\ R x y.
Proof.
  induction 1 as [|a b l l' Hab HF IH]; intros Hin; [destruct Hin|].
  destruct Hin as [<-|Hin].
  - exists b. split; [left; reflexivity|exact Hab].
  - destruct (IH Hin) as [y [Hy HR]]. exists y. split; [right; exact Hy|exact HR].
Qed.

Theorem rref_unique m A B : rref m A -> rref m B ->
  (forall f, inspan m A f <-> inspan m B f) -> Forall2 (eqm m) A B.
Proof.
  revert B. induction A as [|a A IH]; intros B HA HB Hsp.
  - assert (HBnil : B = []).
    { apply (rref_span_zero_nil m B HB). intros f Hf. apply (inspan_nil m f).
      apply (proj2 (Hsp f)); exact Hf. }
    subst B. constructor.
  - destruct B as [|b B].
    { assert (HAnil : a :: A = []).
      { apply (rref_span_zero_nil m (a :: A) HA). intros f Hf. apply (inspan_nil m f).
        apply (proj1 (Hsp f)); exact Hf. }
      discriminate. }
    destruct (rref_inv m a A HA) as [ca [Hla [Hba [Haa HRA]]]].
    destruct (rref_inv m b B HB) as [cb [Hlb [Hbb [Hab HRB]]]].
    (* same leading column *)
    assert (Hc : ca = cb).
    { assert (H1 : ~ ca < cb).
      { intros Hlt.
        assert (Hin : inspan m (b :: B) (get a))
          by (apply (proj1 (Hsp (get a))); apply inspan_head).
        pose proof (inspan_before_lead m b cb B (get a) ca Hlb Hbb Hin Hlt) as Hz.
        destruct Hla as [_ [Hac _]]. rewrite Hac in Hz. discriminate. }
      assert (H2 : ~ cb < ca).
      { intros Hlt.
        assert (Hin : inspan m (a :: A) (get b))
          by (apply (proj2 (Hsp (get b))); apply inspan_head).
        pose proof (inspan_before_lead m a ca A (get b) cb Hla Hba Hin Hlt) as Hz.
        destruct Hlb as [_ [Hbc _]]. rewrite Hbc in Hz. discriminate. }
      lia. }
    subst cb. rename ca into c.
    assert (Hza : forall r', In r' A -> get r' c = false)
      by (intros r' Hr'; apply (Hba r' Hr'); lia).
    assert (Hzb : forall r', In r' B -> get r' c = false)
      by (intros r' Hr'; apply (Hbb r' Hr'); lia).
    (* same span of the tails *)
    assert (Hsp' : forall f, inspan m A f <-> inspan m B f).
    { intros f. split; intros Hf.
      - destruct (proj1 (inspan_tail m a c A f Hla Hza) Hf) as [Hf1 Hfc].
        apply (proj2 (inspan_tail m b c B f Hlb Hzb)).
        split; [apply (proj1 (Hsp f)); exact Hf1 | exact Hfc].
      - destruct (proj1 (inspan_tail m b c B f Hlb Hzb) Hf) as [Hf1 Hfc].
        apply (proj2 (inspan_tail m a c A f Hla Hza)).
        split; [apply (proj2 (Hsp f)); exact Hf1 | exact Hfc]. }
    pose proof (IH B HRA HRB Hsp') as HF.
    constructor; [|exact HF].
    (* the heads agree: a + b lies in span A and vanishes on the leading columns of A *)
    assert (Hg : inspan m (a :: A) (fun j => xorb (get a j) (get b j))).
    { apply (inspan_xor m (a :: A) (get a) (get b)); [apply inspan_head|].
      apply (proj2 (Hsp (get b))). apply inspan_head. }
    assert (Hgc : xorb (get a c) (get b c) = false).
    { destruct Hla as [_ [Hac _]]. destruct Hlb as [_ [Hbc _]]. rewrite Hac, Hbc. reflexivity. }
    assert (HgA : inspan m A (fun j => xorb (get a j) (get b j))).
    { apply (proj2 (inspan_tail m a c A _ Hla Hza)). split; [exact Hg|exact Hgc]. }
    destruct HgA as [sel [Hlen Hgs]].
    assert (Hgs' : forall j, j < m -> xorb (get a j) (get b j) = lin sel A j) by exact Hgs.
    assert (Hsel : forallb negb sel = true).
    { apply (rref_sel_zero m A HRA sel Hlen). intros r' c' Hr' Hl'.
      assert (Hc' : c' < m) by (destruct Hl' as [Hc' _]; exact Hc').
      rewrite <- (Hgs' c' Hc').
      rewrite (Haa r' c' Hr' Hl').
      destruct (Forall2_In_l (eqm m) A B r' HF Hr') as [r'' [Hr'' He]].
      rewrite (Hab r'' c' Hr'' (lead_eqm m r' r'' c' He Hl')). reflexivity. }
    intros j Hj.
    pose proof (Hgs' j Hj) as Hgj. rewrite (lin_sel_zero sel A j Hsel) in Hgj.
    revert Hgj. destruct (get a j), (get b j); simpl; congruence.
Qed.

Lemma rref_length_eq m A B : rref m A -> rref m B ->
  (forall f, inspan m A f <-> inspan m B f) -> length A = length B.
Proof.
  intros HA HB Hsp. pose proof (rref_unique m A B HA HB Hsp) as HF.
  clear HA HB Hsp. induction HF as [|a b A' B' _ _ IH]; simpl; [reflexivity|]. f_equal. exact IH.
Qed.

Theorem rref_unit_vector m A c : rref m A -> c < m -> inspan m A (fun j => Nat.eqb j c) ->
  exists i, i < length A /\
    (forall j, j < m -> get (nth i A []) j = Nat.eqb j c) /\
    (forall i', i' < length A -> i' <> i -> get (nth i' A []) c = false).
Proof.
  intros HR Hc. induction HR as [|r cr A Hlead Hbelow Habove HR IH]; intros Hin.
  - exfalso. pose proof (inspan_nil m _ Hin c Hc) as H. cbv beta in H.
    rewrite Nat.eqb_refl in H. discriminate.
  - destruct Hin as [sel [Hlen Hf]]. destruct sel as [|s sel]; [discriminate|].
    simpl in Hlen.
    assert (Hf' : forall j, j < m -> Nat.eqb j c = lin (s :: sel) (r :: A) j) by exact Hf.
    clear Hf.
    assert (Hcr : cr < m) by (destruct Hlead as [H _]; exact H).
    assert (Hrcr : get r cr = true) by (destruct Hlead as [_ [H _]]; exact H).
    assert (Hzcr : forall r', In r' A -> get r' cr = false)
      by (intros r' Hr'; apply (Hbelow r' Hr'); lia).
    assert (Hs : s = Nat.eqb cr c).
    { pose proof (Hf' cr Hcr) as H.
      rewrite lin_cons, Hrcr, (lin_zero_col sel A cr Hzcr) in H.
      rewrite andb_true_r, xorb_false_r in H. symmetry; exact H. }
    destruct (Nat.eq_dec cr c) as [Heq|Hne].
    + subst cr. rewrite Nat.eqb_refl in Hs. subst s.
      assert (Hsel : forallb negb sel = true).
      { apply (rref_sel_zero m A HR sel); [lia|]. intros r' c' Hr' Hl'.
        assert (Hc' : c' < m) by (destruct Hl' as [H _]; exact H).
        pose proof (Hf' c' Hc') as H. rewrite lin_cons in H.
        rewrite (Habove r' c' Hr' Hl') in H.
        rewrite andb_false_r, xorb_false_l in H. rewrite <- H.
        apply Nat.eqb_neq. intros Heq. subst c'.
        destruct Hl' as [_ [Ht _]]. rewrite (Hzcr r' Hr') in Ht. discriminate. }
      exists 0. split; [simpl; lia|]. split.
      * intros j Hj. simpl nth. rewrite (Hf' j Hj).
        rewrite lin_cons, (lin_sel_zero sel A j Hsel). rewrite xorb_false_r. reflexivity.
      * intros i' Hi' Hne. destruct i' as [|k]; [congruence|]. simpl nth.
        apply Hzcr. apply nth_In. simpl in Hi'. lia.
    + assert (Hs' : s = false) by (rewrite Hs; apply Nat.eqb_neq; exact Hne).
      clear Hs. subst s.
      assert (HinA : inspan m A (fun j => Nat.eqb j c)).
      { exists sel. split; [lia|]. intros j Hj. cbv beta. rewrite (Hf' j Hj).
        rewrite lin_cons. rewrite andb_false_l, xorb_false_l. reflexivity. }
      destruct (IH HinA) as [i [Hi [Hrow Hothers]]].
      exists (S i). split; [simpl; lia|]. split.
      * intros j Hj. simpl nth. apply Hrow; exact Hj.
      * intros i' Hi' Hne'. destruct i' as [|k].
        -- simpl nth. apply (Habove (nth i A []) c).
           ++ apply nth_In; exact Hi.
           ++ split; [exact Hc|]. split.
              ** exact (eq_trans (Hrow c Hc) (Nat.eqb_refl c)).
              ** intros j Hj. assert (Hjm : j < m) by lia.
                 apply (eq_trans (Hrow j Hjm)). apply Nat.eqb_neq. lia.
        -- simpl nth. apply Hothers; [simpl in Hi'; lia | lia].
Qed.

