"""C18 — settings persist across processes with the documented precedence.
   obligations  : Properties/C18.v (theorems over all histories of Model P, Settings/Model.v)
   correspondence: histories of <= 12 operations (spawn / set / reset / reload / exit) run on a scratch copy of the package
                  with a scratch HOME; every process is a fresh interpreter (long-lived ones are driven over a pipe), and after
                  every operation one more fresh interpreter (the probe, itself a Spawn of the model) reads all settings;
                  the acting process's whole cache, the probe's whole cache and the store file after each step are
                  compared with the model inside Coq
   oracle       : the three clauses of the property stated directly in Python on what probes and the store file show"""
import json
import os
import shutil
import subprocess
from concurrent.futures import ThreadPoolExecutor
from fractions import Fraction

import common

PY = common.PY

SERVER = r'''
import sys, json
from simulaqron.settings import simulaqron_settings as S, Config
KEYS = [n for n, v in vars(Config).items() if isinstance(v, property)]
def dump():
    return {"cache": list(Config._config.items()), "props": {k: getattr(S, k) for k in KEYS},
            "default": list(Config._default_config.items()),
            "files": [Config._internal_settings_file, Config._user_settings_file]}
sys.stdout.write(json.dumps(dump()) + "\n"); sys.stdout.flush()
for line in sys.stdin:
    cmd = json.loads(line)
    if cmd[0] == "set":
        setattr(S, cmd[1], cmd[2])
    elif cmd[0] == "reset":
        S.default_settings()
    elif cmd[0] == "reload":
        S.update_settings()
    elif cmd[0] == "exit":
        break
    sys.stdout.write(json.dumps(dump()) + "\n"); sys.stdout.flush()
'''

PROBE = r'''
import sys, json
from simulaqron.settings import simulaqron_settings as S, Config
KEYS = [n for n, v in vars(Config).items() if isinstance(v, property)]
sys.stdout.write(json.dumps({"cache": list(Config._config.items()), "props": {k: getattr(S, k) for k in KEYS},
                             "default": list(Config._default_config.items()),
                             "files": [Config._internal_settings_file, Config._user_settings_file]}) + "\n")
'''

DOC_KEYS = ["_read_user", "max_qubits", "max_registers", "conn_retry_time", "recv_timeout", "recv_retry_time",
            "log_level", "sim_backend", "network_config_file", "noisy_qubits", "t1"]


# ------------------------------------------------------------------------------------------------------
# Coq literals
# ------------------------------------------------------------------------------------------------------
def cstr(s):
    return '"' + s.replace('"', '""') + '"'


def cval(v):
    if v is None:
        return "VNull"
    if isinstance(v, bool):
        return "(VBool %s)" % ("true" if v else "false")
    if isinstance(v, int):
        return "(VInt (%d))" % v
    if isinstance(v, float):
        f = Fraction(v)
        return "(VFloat (%d) %d)" % (f.numerator, f.denominator)
    if isinstance(v, str):
        return "(VStr %s)" % cstr(v)
    raise common.Broken("value outside the JSON-native scalars: %r" % (v,))


def cdict(pairs):
    return "[" + "; ".join("(%s, %s)" % (cstr(k), cval(v)) for k, v in pairs) + "]"


def coptdict(pairs):
    return "None" if pairs is None else "(Some %s)" % cdict(pairs)


def cop(o):
    if o[0] == "spawn":
        return "(Spawn %d)" % o[1]
    if o[0] == "set":
        return "(SetK %d %s %s)" % (o[1], cstr(o[2]), cval(o[3]))
    if o[0] == "reset":
        return "(Reset %d)" % o[1]
    if o[0] == "reload":
        return "(Reload %d)" % o[1]
    if o[0] == "exit":
        return "(Exit %d)" % o[1]
    raise common.Broken("bad op %r" % (o,))


def hist_text(h):
    steps = ";\n    ".join("{| o_op := %s; o_pid := %d; o_cache := %s; o_store := %s |}"
                           % (cop(s["op"]), s["pid"], coptdict(s["cache"]), coptdict(s["store"])) for s in h["obs"])
    return ("{| h_dflt := %s;\n   h_store := %s;\n   h_user := %s;\n   h_steps := [\n    %s] |}"
            % (cdict(h["default"]), coptdict(h["store0"]), coptdict(h["user"]), steps))


def cases_text(hs):
    return ("From Coq Require Import List String ZArith Bool Arith.\nImport ListNotations.\n"
            "From SQ Require Import Base.ListUtil Settings.Model Settings.Cases.\nOpen Scope string_scope.\n"
            "Definition hs : list hist := [\n" + ";\n".join(hist_text(h) for h in hs) + "\n].\n"
            "Eval vm_compute in map check_hist hs.\nEval vm_compute in map hist_disciplined hs.\n")


def typed(v):
    """equality that distinguishes True / 1 / 1.0"""
    return (type(v).__name__, v)


def typed_pairs(pairs):
    return None if pairs is None else [(k, typed(v)) for k, v in pairs]


# ------------------------------------------------------------------------------------------------------
# one worker = one copy of the package + one HOME
# ------------------------------------------------------------------------------------------------------
class Worker:
    def __init__(self, pkg, home):
        self.pkg, self.home = pkg, home
        self.cfg = os.path.join(pkg, "simulaqron", "config")
        self.store_file = os.path.join(self.cfg, "settings.json")
        self.user_file = os.path.join(home, ".simulaqron.json")
        self.env = dict(os.environ, PYTHONPATH=pkg, HOME=home, PYTHONHASHSEED="0", PYTHONWARNINGS="ignore")
        self.spawns = 0

    def clean(self):
        for f in os.listdir(self.cfg):
            if f.endswith(".json"):
                os.remove(os.path.join(self.cfg, f))
        for f in os.listdir(self.home):
            p = os.path.join(self.home, f)
            if os.path.isfile(p):
                os.remove(p)

    def read_store(self):
        if not os.path.exists(self.store_file):
            return None
        with open(self.store_file) as f:
            return json.load(f, object_pairs_hook=list)

    def probe(self):
        self.spawns += 1
        p = subprocess.run([PY, "-c", PROBE], env=self.env, cwd=self.home, stdout=subprocess.PIPE,
                           stderr=subprocess.PIPE, text=True, timeout=120)
        if p.returncode != 0:
            return {"crash": p.stderr[-800:]}
        return json.loads(p.stdout.strip().split("\n")[-1])

    def spawn(self):
        self.spawns += 1
        pr = subprocess.Popen([PY, "-u", "-c", SERVER], env=self.env, cwd=self.home, stdin=subprocess.PIPE,
                              stdout=subprocess.PIPE, stderr=subprocess.PIPE, text=True)
        line = pr.stdout.readline()
        if not line:
            err = pr.stderr.read()[-800:]
            pr.kill()
            return None, {"crash": err}
        return pr, json.loads(line)

    @staticmethod
    def command(pr, cmd):
        pr.stdin.write(json.dumps(cmd) + "\n")
        pr.stdin.flush()
        if cmd[0] == "exit":
            pr.wait(timeout=60)
            return None
        line = pr.stdout.readline()
        if not line:
            return {"crash": pr.stderr.read()[-800:]}
        return json.loads(line)


def py_single_writer(ops):
    """no process writes after another process wrote unless it re-read the store in between (spawn / reload)"""
    live, stale = set(), set()
    for o in ops:
        k, p = o[0], o[1]
        if k == "spawn":
            live.add(p)
            stale.discard(p)
        elif p not in live:
            continue
        elif k in ("set", "reset"):
            if p in stale:
                return False
            stale = set(q for q in live if q != p)
        elif k == "reload":
            stale.discard(p)
        elif k == "exit":
            live.discard(p)
            stale.discard(p)
    return True


def run_history(w, h):
    """executes h (dict with user, store0, ops) on worker w; fills h['obs'], h['default'], h['oracle_bad'], ..."""
    h["single_writer"] = py_single_writer(h["ops"])
    w.clean()
    if h["store0"] is not None:
        with open(w.store_file, "w") as f:
            json.dump(dict(h["store0"]), f)
    if h["user"] is not None:
        with open(w.user_file, "w") as f:
            json.dump(dict(h["user"]), f)
    live = {}
    obs = []
    bad = []          # oracle disagreements (property stated directly)
    api_bad = []      # property getter != cache entry
    h["default"] = None
    user = dict(h["user"]) if h["user"] is not None else {}
    # oracle bookkeeping: what the property says a fresh process must read for keys outside the user's file
    expect = {}       # key -> typed value last written through the settings object (reset: defaults)
    next_probe = 1000
    crashed = None
    try:
        for i, o in enumerate(h["ops"]):
            o = list(o)
            if o[0] == "set" and o[2] == "network_config_file" and isinstance(o[3], str) and not os.path.isabs(o[3]):
                o[3] = os.path.join(w.home, o[3])           # keep the files `import simulaqron` creates inside the scratch HOME
            kind, p = o[0], o[1]
            d = None
            if kind == "spawn":
                pr, d = w.spawn()
                if pr is not None:
                    live[p] = pr
            elif p in live:
                d = Worker.command(live[p], ["set", o[2], o[3]] if kind == "set" else [kind])
                if kind == "exit":
                    del live[p]
            if d is not None and "crash" in d:
                crashed = {"step": i, "op": o, "stderr": d["crash"]}
                break
            st = w.read_store()
            obs.append({"op": tuple(o), "pid": p, "cache": None if d is None else [tuple(x) for x in d["cache"]],
                        "store": None if st is None else [tuple(x) for x in st]})
            if d is not None:
                if h["default"] is None:
                    h["default"] = [tuple(x) for x in d["default"]]
                    h["files"] = d["files"]
                for k, v in d["props"].items():
                    if typed(dict(d["cache"]).get(k)) != typed(v):
                        api_bad.append({"step": i, "key": k, "getter": v, "cache": dict(d["cache"]).get(k)})
            # ---- the probe: a process started later --------------------------------------------------------------
            q = next_probe
            next_probe += 1
            pd = w.probe()
            if "crash" in pd:
                crashed = {"step": i, "op": o, "probe": True, "stderr": pd["crash"]}
                break
            st2 = w.read_store()
            obs.append({"op": ("spawn", q), "pid": q, "cache": [tuple(x) for x in pd["cache"]],
                        "store": None if st2 is None else [tuple(x) for x in st2]})
            obs.append({"op": ("exit", q), "pid": q, "cache": None, "store": None if st2 is None else [tuple(x) for x in st2]})
            if h["default"] is None:
                h["default"] = [tuple(x) for x in pd["default"]]
                h["files"] = pd["files"]
            dflt = dict(h["default"])
            # ---- oracle -------------------------------------------------------------------------------------------
            if kind == "set" and p in live:
                expect[o[2]] = typed(o[3])
            if kind == "reset" and p in live:
                expect = {k: typed(v) for k, v in dflt.items()}
                # clause 2: resetting restores every documented default in the store
                sd = dict(st) if st is not None else {}
                for k, v in dflt.items():
                    if k not in sd or typed(sd[k]) != typed(v):
                        bad.append({"clause": "reset restores every default in the store", "step": i, "key": k,
                                    "store_has": sd.get(k, "<missing>"), "default": v})
            probe_props = pd["props"]
            sd2 = dict(st2) if st2 is not None else {}
            ru = sd2.get("_read_user", dflt.get("_read_user"))
            enabled = bool(ru)
            # clause 3: keys of the user's file take precedence whenever user overrides are enabled
            if enabled:
                for k, v in user.items():
                    got = probe_props.get(k, dict(pd["cache"]).get(k, "<missing>"))
                    if typed(got) != typed(v):
                        bad.append({"clause": "user file takes precedence when overrides are enabled", "step": i, "key": k,
                                    "read": got, "user_file": v})
            # clause 1: what was written is what a later process reads, unless the user's file sets the key
            immediate = [o[2]] if (kind == "set" and p in live) else []
            for k, tv in expect.items():
                if k in user:
                    continue
                if not (h["single_writer"] or k in immediate):
                    continue
                got = probe_props.get(k, "<missing>")
                if typed(got) != tv:
                    bad.append({"clause": "a written setting is what a later process reads", "step": i, "key": k,
                                "read": got, "written": tv[1]})
    finally:
        for pr in live.values():
            try:
                Worker.command(pr, ["exit"])
            except Exception:
                pr.kill()
            for s in (pr.stdin, pr.stdout, pr.stderr):
                try:
                    s.close()
                except Exception:
                    pass
    h["obs"] = obs
    h["oracle_bad"] = bad
    h["api_bad"] = api_bad
    h["crashed"] = crashed
    return h


# ------------------------------------------------------------------------------------------------------
# history generation
# ------------------------------------------------------------------------------------------------------
def values_for(key, rng, which=None):
    if key == "network_config_file":
        # a path (made absolute inside the scratch HOME at run time) or null, the two value types the code anticipates
        # (NetQASMFactory: `if simulaqron_settings.network_config_file is not None`)
        if which == "null" or (which is None and rng.random() < 0.2):
            return None
        return rng.choice(["net_a.json", "net b.json", "sub_net.json"])
    pool = {
        "bool": [True, False],
        "int": [0, 1, -3, 7, 20, 2 ** 40, 1000],
        "float": [0.0, 0.5, 1e-3, 2.5, -1.25, 1e300, 0.1],
        "str": ["", "stabilizer", "projectq", "a b", 'q"uote', "x" * 40, "café"],
        "null": [None],
    }
    t = which or rng.choice(list(pool))
    return rng.choice(pool[t])


def gen_user(rng):
    r = rng.random()
    if r < 0.35:
        return None
    ks = rng.sample([k for k in DOC_KEYS if k != "network_config_file"], rng.randrange(0, 4))
    u = [(k, values_for(k, rng)) for k in ks]
    if rng.random() < 0.25 and "_read_user" not in ks:
        u.append(("_read_user", rng.choice([False, True, 0, "", "no", None])))
    if rng.random() < 0.2:
        u.append(("my_extra_key", rng.choice([1, "z", None])))
    return u


def gen_store0(rng):
    r = rng.random()
    if r < 0.45:
        return None
    ks = rng.sample([k for k in DOC_KEYS if k not in ("network_config_file",)], rng.randrange(0, 6))
    s = [(k, values_for(k, rng)) for k in ks if k != "_read_user"]
    if rng.random() < 0.35:
        s.append(("_read_user", rng.choice([False, True, 0, 1, "", "yes", None, 0.0])))
    if rng.random() < 0.15:
        s.append(("old_key_from_a_previous_version", 3))
    return s


def gen_ops(rng, single_writer, nmax=12):
    n = rng.randrange(2, nmax + 1)
    ops, live, stale = [], [], set()
    nextp = 1
    for _ in range(n):
        r = rng.random()
        if not live or r < 0.14:
            p = nextp
            nextp += 1
            ops.append(("spawn", p))
            live.append(p)
            stale.discard(p)
            continue
        writers = [p for p in live if p not in stale] if single_writer else live
        if r < 0.62 and writers:
            p = rng.choice(writers)
            k = rng.choice(DOC_KEYS)
            ops.append(("set", p, k, values_for(k, rng)))
            stale = set(q for q in live if q != p)
        elif r < 0.72 and writers:
            p = rng.choice(writers)
            ops.append(("reset", p))
            stale = set(q for q in live if q != p)
        elif r < 0.90:
            p = rng.choice(live)
            ops.append(("reload", p))
            stale.discard(p)
        else:
            p = rng.choice(live)
            ops.append(("exit", p))
            live.remove(p)
            stale.discard(p)
    return ops


def systematic_histories():
    """every key x every JSON-native value type, set by one process and read by later ones; with and without user file"""
    out = []
    types = ["bool", "int", "float", "str", "null"]
    import random
    r = random.Random(12345)
    for user in (None, [("max_qubits", 5), ("sim_backend", "projectq"), ("t1", 0.25)]):
        pend = [(k, t) for k in DOC_KEYS for t in (types if k != "network_config_file" else ["str", "null"])]
        while pend:
            chunk, pend = pend[:10], pend[10:]
            ops = [("spawn", 1)]
            for k, t in chunk:
                ops.append(("set", 1, k, values_for(k, r, t)))
            ops.append(("reset", 1))
            out.append({"user": user, "store0": None, "ops": ops, "single_writer": True, "kind": "systematic"})      # <= 12 ops
    return out


LOST_UPDATE = {"user": None, "store0": None, "single_writer": False, "kind": "lost-update remark",
               "ops": [("spawn", 1), ("spawn", 2), ("set", 1, "max_qubits", 7), ("set", 2, "t1", 2.5)]}


# ------------------------------------------------------------------------------------------------------
def run(ctx):
    rng = ctx.rng
    thorough = ctx.tier == "thorough"
    ctx.trusted += [
        "json round trip of the JSON-native scalars (bool, int, finite float, str, null) is the identity — exercised on every stored value by the correspondence",
        "the harness drives long-lived interpreters over a pipe (set / reset / reload / exit) and reads Config._config, Config._default_config and the store file",
        "Config._default_config is read from the implementation and handed to the model (the theorems hold for every default dictionary)",
    ]
    ctx.rule = ("history = initial store file (absent / partial / with _read_user falsy or truthy / with an unknown key) x user file (absent / 0-3 keys / _read_user / unknown key) "
                "x <= 12 operations over <= 4 live interpreters, each followed by a fresh-interpreter probe; plus every key x every JSON value type systematically; "
                "non-trivial = history contains a write; distinct = distinct (store0, user, ops); an evaluation = one observed step (acting process cache + store, probe cache + store)")
    common.check_properties_file(ctx)

    # ---- workers -------------------------------------------------------------------------------------------------
    nw = 8
    workers = []
    for i in range(nw):
        if i == 0:
            pkg, home = ctx.scratch, ctx.home
        else:
            base = os.path.join(ctx.scratch_base, "w%d" % i)
            pkg, home = os.path.join(base, "pkg"), os.path.join(base, "home")
            os.makedirs(home)
            shutil.copytree(os.path.join(ctx.scratch, "simulaqron"), os.path.join(pkg, "simulaqron"),
                            ignore=shutil.ignore_patterns("__pycache__", "*.pyc"))
        workers.append(Worker(pkg, home))

    hs = systematic_histories()
    nrand = 700 if thorough else 110
    for i in range(nrand):
        single = rng.random() < 0.75
        hs.append({"user": gen_user(rng), "store0": gen_store0(rng), "ops": gen_ops(rng, single),
                   "single_writer": single, "kind": "random"})
    hs.append(dict(LOST_UPDATE))

    # each worker runs its share sequentially (a worker's files are its own)
    shares = [(workers[w], [h for i, h in enumerate(hs) if i % nw == w]) for w in range(nw)]
    with ThreadPoolExecutor(max_workers=nw) as ex:
        list(ex.map(lambda ws: [run_history(ws[0], h) for h in ws[1]], shares))
    override_bad = override_changes_under_live_process(ctx, workers[0], rng, 40 if thorough else 10)
    ctx.obligation("oracle: after the override file was edited / removed under a live process, update_settings() in that process and a process started later "
                   "read the file as it is now", not override_bad, "; ".join(override_bad)[:700])
    ctx.count("interpreter_spawns", sum(w.spawns for w in workers))

    # ---- bookkeeping, python-side checks ---------------------------------------------------------------------------------
    crashed = [h for h in hs if h.get("crashed")]
    api_bad = [dict(a, history=h["ops"]) for h in hs for a in h["api_bad"]]
    oracle_bad = [(h, b) for h in hs for b in h["oracle_bad"]]
    for h in hs:
        ctx.count("histories_" + h["kind"].split()[0])
        ctx.count("user_file_" + ("absent" if h["user"] is None else "present"))
        ctx.count("store_initially_" + ("absent" if h["store0"] is None else "present"))
        nontriv = any(o[0] in ("set", "reset") for o in h["ops"])
        for s in h["obs"]:
            if s["pid"] < 1000:
                ctx.case(None, nontrivial=False)
                ctx.count("op_" + s["op"][0])
                if s["op"][0] == "set":
                    ctx.count("set_type_" + type(s["op"][3]).__name__)
                    ctx.count("set_key_" + s["op"][2])
        ctx.case((str(h["store0"]), str(h["user"]), str(h["ops"])), nontrivial=nontriv)
    def nodup(pairs):
        return pairs is None or len(set(k for k, _ in pairs)) == len(pairs)
    ctx.obligation("inputs satisfy the theorems' hypotheses: default dictionary, initial store file and user file have no duplicate keys (wf / optwf)",
                   all(nodup(h["store0"]) and nodup(h["user"]) and nodup(h.get("default")) for h in hs), "")
    keys_seen = set(k for h in hs if h.get("default") for k, _ in h["default"])
    ctx.obligation("the implementation's default dictionary has exactly the 11 documented keys",
                   keys_seen == set(DOC_KEYS), repr(sorted(keys_seen ^ set(DOC_KEYS))))
    ctx.obligation("no interpreter crashed while importing / using simulaqron.settings (%d histories)" % len(hs),
                   not crashed, repr([h["crashed"] for h in crashed[:1]]))
    ctx.obligation("every property getter returns the cache entry of its key", not api_bad, repr(api_bad[:1]))

    # ---- Coq decides agreement with the model ------------------------------------------------------------------------------
    good = [h for h in hs if h.get("default") is not None]
    shard = 20
    shards = [good[i:i + shard] for i in range(0, len(good), shard)]
    res = common.coq_eval_many([cases_text(sh) for sh in shards])
    failing, evalok, ndisc, disc_mismatch = [], True, 0, []
    for sh, (ok, out) in zip(shards, res):
        lists = common.parse_nat_lists(out) if ok else []
        if not ok or len(lists) != 2 or len(lists[0]) != len(sh):
            ctx.obligation("correspondence settings histories evaluate in Coq", False, out)
            evalok = False
            continue
        for h, fb, dc in zip(sh, lists[0], lists[1]):
            if fb:
                failing.append((h, fb - 1))
            ndisc += dc
            # the probes never write, so the model's `disciplined` must agree with the harness's own classification
            if bool(h["single_writer"]) != bool(dc) and not h.get("crashed"):
                disc_mismatch.append(h["ops"])
    nsteps = sum(len(h["obs"]) for h in good)
    ctx.coverage["histories_disciplined(model)"] = ndisc
    ctx.obligation("correspondence: real settings.py = Settings.Model step for step (process cache, probe cache, store file; dict order included) on %d histories / %d observed steps"
                   % (len(good), nsteps), evalok and not failing,
                   "first disagreement: %r" % ([{"step": f[1], "obs": f[0]["obs"][f[1]], "ops": f[0]["ops"], "user": f[0]["user"], "store0": f[0]["store0"]} for f in failing[:1]],))
    ctx.obligation("single-writer classification of the histories: harness = Settings.Model.disciplined", not disc_mismatch, repr(disc_mismatch[:1]))
    ctx.obligation("oracle (the three clauses of the property, on probes and the store file) agrees with the implementation",
                   not oracle_bad, repr([(b, h["ops"]) for h, b in oracle_bad[:1]]))
    ctx.count("oracle_disagreements", len(oracle_bad))

    # ---- remark: lost update between two long-lived writers (not claimed as a finding) ---------------------------------------------------
    lu = hs[-1]
    if lu.get("obs"):
        last_probe = [s for s in lu["obs"] if s["op"][0] == "spawn" and s["pid"] >= 1000][-1]
        mq = dict(last_probe["cache"]).get("max_qubits")
        ctx.coverage["remark_lost_update"] = ("two long-lived writers: process 1 sets max_qubits=7, process 2 (started before) sets t1=2.5 and writes its whole stale cache; "
                                              "a process started afterwards reads max_qubits=%r (Settings.Facts.lost_update_witness; outside the single-writer histories the theorems quantify over; informational)" % (mq,))
    for h in hs[:1] + hs[-3:-1]:
        ctx.sample({"store0": h["store0"], "user": h["user"], "ops": h["ops"], "single_writer": h["single_writer"],
                    "last_probe": (h["obs"][-2]["cache"] if h.get("obs") else None)})

    # ---- verdict ---------------------------------------------------------------------------------------------------------------
    if override_bad:
        ctx.report("oracle:override-file-changed-under-live-process", "settings: " + override_bad[0][:600], {"problems": override_bad[:3]}, True)
    if oracle_bad:
        h, b = min(oracle_bad, key=lambda x: (len(x[0]["ops"]), x[1]["step"]))
        small = shrink(workers[0], h, b["clause"])
        ctx.report("oracle:" + b["clause"], "settings: %s — %s" % (b["clause"], {k: b[k] for k in b if k != "clause"}),
                   {"user_file": small["user"], "initial_store_file": small["store0"], "ops": small["ops"],
                    "oracle": small["oracle_bad"][:2]}, True)
    elif crashed:
        h = min(crashed, key=lambda x: len(x["ops"]))
        small = shrink(workers[0], h, None)
        last = small["crashed"]["stderr"].strip().split("\n")[-1] if small.get("crashed") else ""
        ctx.report("later-process-crashes", "settings: after these writes a process started later cannot read the settings back (it crashes on import): %s" % last[:160],
                   {"user_file": small["user"], "initial_store_file": small["store0"], "ops": small["ops"], "crash": small["crashed"]}, True)
    elif ctx.broken() and not override_bad:
        ctx.report("broken:" + ";".join(ctx.broken()), "proof obligation / correspondence no longer checks: " + "; ".join(ctx.broken()),
                   {"broken": ctx.broken(),
                    "first_disagreement": [{"step": f[1], "ops": f[0]["ops"], "user": f[0]["user"], "store0": f[0]["store0"]} for f in failing[:1]]},
                   found_input=False)


def override_changes_under_live_process(ctx, w, rng, n):
    """the user's override file is edited or removed while a process that has already loaded it lives on: a reload in that process (and a
    process started later) must see the file AS IT IS NOW.  Outside the Coq model (there the override file is a constant of a history); the
    expectation is computed directly: reload = (cache updated with the defaults, then the store, then - if _read_user - the file's current content)."""
    bad = []
    for _ in range(n):
        w.clean()
        keys = ["max_qubits", "max_registers", "conn_retry_time", "recv_timeout", "log_level", "sim_backend", "t1", "noisy_qubits"]
        def rnd_user():
            ks = rng.sample(keys, rng.randrange(1, 4))
            return {k: values_for(k, rng) for k in ks}
        u1 = rnd_user()
        u2 = rng.choice([None, rnd_user(), rnd_user()])
        with open(w.user_file, "w") as f:
            json.dump(u1, f)
        pr, d0 = w.spawn()
        if pr is None:
            bad.append("spawn crashed: %s" % d0.get("crash"))
            continue
        steps = []
        try:
            if rng.random() < 0.5:
                k = rng.choice(keys)
                v = values_for(k, rng)
                Worker.command(pr, ["set", k, v])
                steps.append(["set", k, v])
            if u2 is None:
                os.remove(w.user_file)
            else:
                with open(w.user_file, "w") as f:
                    json.dump(u2, f)
            before = Worker.command(pr, ["dump"]) if False else None
            d1 = Worker.command(pr, ["reload"])
            if d1 is None or "crash" in d1:
                bad.append("reload crashed: %r" % (d1,))
                continue
            cache = dict(tuple(x) for x in d1["cache"])
            default = dict(tuple(x) for x in d1["default"])
            store = dict(tuple(x) for x in (w.read_store() or []))
            want = dict(default)
            want.update(store)
            if want.get("_read_user") and u2 is not None:
                want.update(u2)
            ctx.count("override_file_changed_under_live_process")
            ctx.case(("override-change", json.dumps(u1, sort_keys=True), json.dumps(u2, sort_keys=True), json.dumps(steps)), nontrivial=True)
            diff = {k: (cache.get(k), want.get(k)) for k in set(cache) | set(want) if typed(cache.get(k)) != typed(want.get(k))}
            if diff:
                bad.append("override file %r was replaced by %r while a process lived; after update_settings() that process reads %r (left: read, right: "
                           "what defaults + store + the file as it is now give)" % (u1, u2, diff))
            pd = w.probe()
            if "crash" not in pd:
                pc = dict(tuple(x) for x in pd["cache"])
                diff2 = {k: (pc.get(k), want.get(k)) for k in want if typed(pc.get(k)) != typed(want.get(k))}
                if diff2:
                    bad.append("a process started after the override file changed from %r to %r reads %r" % (u1, u2, diff2))
        finally:
            try:
                Worker.command(pr, ["exit"])
            except Exception:               # noqa: BLE001
                pr.kill()
    return bad


def shrink(w, h, clause):
    """greedy removal of operations while the same clause still fails on the real code"""
    cur = {k: h[k] for k in ("user", "store0", "ops", "single_writer", "kind")}
    cur = run_history(w, dict(cur))

    def fails(c):
        if clause is None:
            return bool(c.get("crashed"))
        return any(b["clause"] == clause for b in c["oracle_bad"])
    if not fails(cur):
        return h
    changed = True
    while changed:
        changed = False
        for i in range(len(cur["ops"])):
            ops = cur["ops"][:i] + cur["ops"][i + 1:]
            if not ops:
                continue
            c = run_history(w, {"user": cur["user"], "store0": cur["store0"], "ops": ops,
                                "single_writer": cur["single_writer"], "kind": cur["kind"]})
            if fails(c):
                cur = c
                changed = True
                break
        for fld in ("user", "store0"):
            if cur[fld] is not None:
                c = run_history(w, dict({k: cur[k] for k in ("user", "store0", "ops", "single_writer", "kind")}, **{fld: None}))
                if fails(c):
                    cur = c
                    changed = True
    return cur
