(* C04 - every operation completes and no lock outlives it (Model L: node locks as an LTS at yield-point granularity).
   Proved for the single-lock fragment; refuted (with states from which NO continuation completes) for a send addressed to
   the issuing node (D4), crossing sends (D5) and the timeout branch of _lock_nodes (D6). *)
From Coq Require Import List Bool Arith.
From SQ Require Import Base.ListUtil Conc.Model Conc.Own Conc.Deadlock Conc.Complete Conc.Orphan.
Import ListNotations.

(* creations, single-qubit gates / measurements, no-ops, in any number, on any nodes, concurrently, under EVERY schedule:
   a run has at most 11 events per operation, and a run that cannot be extended has completed every operation and left
   every node lock free *)
Theorem C04_single_lock_fragment_completes : forall nn cfg tr s,
  all_single cfg -> nodes_ok nn cfg ->
  run cfg (init nn cfg) tr = Some s ->
  length tr <= 11 * length cfg /\
  ((forall e, step cfg s e = None) ->
   (forall o, o < length cfg -> done s o = true) /\ (forall n, lock_of s n = None)).
Proof. exact single_lock_fragment_completes_lemma. Qed.
Print Assumptions C04_single_lock_fragment_completes.

(* while anything is unfinished in that fragment some event is enabled (no deadlock), in every reachable state *)
Theorem C04_single_lock_progress : forall nn cfg s o,
  all_single cfg -> Own s -> Sh nn cfg s -> o < length cfg -> done s o = false ->
  exists e s', step cfg s e = Some s'.
Proof. exact single_progress. Qed.
Print Assumptions C04_single_lock_progress.

(* every run of lock-disciplined operations (sends included) is finite: a hang of such operations is a deadlock, never a livelock *)
Theorem C04_disciplined_runs_bounded : forall cfg nn tr s,
  all_disciplined cfg -> run cfg (init nn cfg) tr = Some s -> length tr <= 11 * length cfg.
Proof. exact disciplined_runs_bounded. Qed.
Print Assumptions C04_disciplined_runs_bounded.

(* D4: in every configuration of lock-disciplined operations that contains a send addressed to its own node there is a reachable
   state after which, whatever happens, the send is not done and the node lock is held by it *)
Theorem C04_self_send_hangs : forall cfg nn o a,
  all_disciplined cfg -> kind_of cfg o = KSend a a -> o < length cfg -> a < nn ->
  exists tr s, run cfg (init nn cfg) tr = Some s /\
    forall tr' s', run cfg s tr' = Some s' -> done s' o = false /\ lock_of s' a = Some (o, false).
Proof. exact self_send_hangs_lemma. Qed.
Print Assumptions C04_self_send_hangs.

(* ... and it does so from ANY reachable state in which the send is still to be issued and the lock is free *)
Theorem C04_self_send_hangs_anywhere : forall cfg s o a,
  Own s -> kind_of cfg o = KSend a a -> op_of s o = SIdle -> lock_of s a = None -> a < length (locks s) ->
  exists s', run cfg s [EIssue o; EReq a o 0; EAcq a o 0; EReq a o 1] = Some s' /\ self_stuck s' o a.
Proof. exact self_send_reaches_stuck. Qed.
Print Assumptions C04_self_send_hangs_anywhere.

(* D5: a -> b while b -> a *)
Theorem C04_crossing_sends_deadlock : forall cfg nn o1 o2 a b,
  all_disciplined cfg -> o1 <> o2 -> a <> b ->
  kind_of cfg o1 = KSend a b -> kind_of cfg o2 = KSend b a ->
  o1 < length cfg -> o2 < length cfg -> a < nn -> b < nn ->
  exists tr s, run cfg (init nn cfg) tr = Some s /\
    forall tr' s', run cfg s tr' = Some s' ->
      done s' o1 = false /\ done s' o2 = false /\ lock_of s' a = Some (o1, false) /\ lock_of s' b = Some (o2, false).
Proof. exact crossing_sends_deadlock_lemma. Qed.
Print Assumptions C04_crossing_sends_deadlock.

(* the general form of D4/D5: a set of operations each polling for a lock held by a member of the set (triples operation / node /
   holder) stays exactly so under every continuation, in every lock-disciplined configuration *)
Theorem C04_wait_for_knot_is_deadlock : forall cfg tr s s' B,
  all_disciplined cfg -> Own s -> knot s B -> run cfg s tr = Some s' ->
  forall o n o', In (o, n, o') B -> done s' o = false /\ lock_of s' n = Some (o', false).
Proof. exact knot_is_deadlock. Qed.
Print Assumptions C04_wait_for_knot_is_deadlock.

(* D5, cyclic: 0 -> 1 -> 2 -> 0 *)
Theorem C04_cyclic_sends_deadlock :
  exists s, run cfg_cycle (init 3 cfg_cycle) cycle_trace = Some s /\
    forall tr' s', run cfg_cycle s tr' = Some s' ->
      done s' 0 = false /\ done s' 1 = false /\ done s' 2 = false /\
      lock_of s' 0 = Some (0, false) /\ lock_of s' 1 = Some (1, false) /\ lock_of s' 2 = Some (2, false).
Proof. exact cyclic_sends_deadlock_lemma. Qed.
Print Assumptions C04_cyclic_sends_deadlock.

(* D6: both two-qubit gates return, then a request orphaned by the timeout branch is granted: the lock of node 0 is held for ever
   although every operation has completed (trace recorded from the implementation) *)
Theorem C04_orphan_lock_leak :
  exists s, run cfg_cross (init 2 cfg_cross) leak_trace = Some s /\
    done s 0 = true /\ done s 1 = true /\ lock_of s 0 = Some (1, true) /\
    forall tr' s', run cfg_cross s tr' = Some s' -> lock_of s' 0 = Some (1, true).
Proof. exact orphan_lock_leak_lemma. Qed.
Print Assumptions C04_orphan_lock_leak.

(* non-vacuity of the completion theorem: a complete run of three operations on two nodes *)
Theorem C04_single_lock_example :
  let cfg := [KOne 0; KOne 0; KOne 1] in
  exists tr s, run cfg (init 2 cfg) tr = Some s /\ (forall e, step cfg s e = None) /\ done_ops s = [0; 1; 2] /\ held_nodes s = [].
Proof. exact single_example. Qed.
Print Assumptions C04_single_lock_example.
