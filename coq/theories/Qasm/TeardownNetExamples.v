(* C11, several hosts: the hypotheses of net_stop_leaves_nothing are satisfiable by a non-trivial history (the repeater), and
   the hypothesis "every delivered half was claimed" cannot be dropped. *)
From Coq Require Import List Bool Arith Lia.
From SQ Require Import Base.ListUtil Stab.Tableau Net.Model Net.Handles Net.Population Qasm.Exec Qasm.ExecProps Qasm.Teardown
  Qasm.EprGate Qasm.TeardownX Qasm.TeardownNet.
Import ListNotations.

(* three nodes (room for 4 qubits, 5 registers each), everybody adjacent; two application generations.
   Generation 1 (application 0 everywhere): hosts 0 and 2 each create a pair with host 1 (sockets 0 and 1); host 1 claims
   both halves -- they are simulated at nodes 0 and 2 -- and applies a CNOT between them (both operands remote at two
   different nodes: the temporary register of the merge), an H, measures one in place; a refused creation (not adjacent),
   a failing gate (unmapped address) and a failing allocation (address in use) on the way.  Then the creator 0 stops first
   (its kept half is simulated at node 1 by now), then 1, then 2.
   Generation 2 (application 1): host 1 creates a pair with host 0, host 0 claims it and frees it, both stop. *)
Definition caps3 : list (nat * nat) := [(4, 5); (4, 5); (4, 5)].
Definition all3 : list nat := [0; 1; 2].
Definition gen1 : list nact :=
  [AInstr 0 (QInitApp 0 2); AInstr 1 (QInitApp 0 3); AInstr 2 (QInitApp 0 2);
   ACreate 0 0 0 all3 1 true 0 [];                       (* host 0 -> node 1, socket 0; kept half at address 0 *)
   ACreate 2 0 0 all3 1 true 1 [];                       (* host 2 -> node 1, socket 1 *)
   ACreate 0 0 1 all3 2 false 0 [];                      (* refused: not adjacent; nothing happens *)
   ARecv 1 0 0 0; ARecv 1 0 1 1;                      (* host 1 claims both halves: addresses 0 and 1 *)
   ARecv 1 0 2 1;                                     (* nothing delivered on socket 1 any more: timeout *)
   AInstr 1 (QG2 0 0 1 VCnot);                        (* repeater gate: both operands simulated elsewhere *)
   AInstr 1 (QG1 0 0 VH);
   AInstr 1 (QG1 0 2 VX);                             (* fails: address 2 not mapped *)
   AInstr 1 (QAlloc 0 1);                             (* fails: address 1 in use *)
   AInstr 1 (QMeas 0 0 true)].
Definition stop0 : nact := AInstr 0 (QStopApp 0 [true]).
Definition stops12 : list nact := [AInstr 1 (QStopApp 0 [false; true]); AInstr 2 (QStopApp 0 [false])].
Definition gen2 : list nact :=
  [AInstr 1 (QInitApp 1 1); AInstr 0 (QInitApp 1 1);
   ACreate 1 1 0 all3 0 true 3 []; ARecv 0 1 0 3; AInstr 0 (QFree 1 0 true);
   AInstr 0 (QStopApp 1 []); AInstr 1 (QStopApp 1 [true])].
Definition repeater : list nact := gen1 ++ [stop0] ++ stops12 ++ gen2.

Fixpoint nrun_res (s : nst) (xs : list nact) : list qres :=
  match xs with [] => [] | x :: t => snd (nstep_r s x) :: nrun_res (nstep s x) t end.

Definition populations (s : nst) : list (nat * nat * nat * nat) :=
  map (fun nd => (length (virt nd), length (sims nd), length (regs nd), numRegs nd)) (nodes (n_net s)).

Example repeater_clean : cleans (ninit caps3) repeater.
Proof. apply cleansb_ok. vm_compute. reflexivity. Qed.

Example repeater_results :
  nrun_res (ninit caps3) repeater =
  [RDone None; RDone None; RDone None; RDone None; RDone None; RErr; RDone None; RDone None; RErr; RDone None; RDone None; RErr; RErr;
   RDone (Some 1);
   RDone None; RDone None; RDone None;
   RDone None; RDone None; RDone None; RDone None; RDone None; RDone None; RDone None].
Proof. vm_compute. reflexivity. Qed.

(* after generation 1's traffic: node 1 holds both halves, nodes 0 and 2 one each; after the merge everything is simulated
   at node 1 in one register *)
Example repeater_mid : populations (nrun (ninit caps3) gen1) = [(1, 0, 0, 0); (2, 4, 1, 1); (1, 0, 0, 0)].
Proof. vm_compute. reflexivity. Qed.

(* the creator (host 0) stops first: node 1 still holds its two halves, node 2 its one *)
Example repeater_creator_stops_first :
  populations (nrun (ninit caps3) (gen1 ++ [stop0])) = [(0, 0, 0, 0); (2, 3, 1, 1); (1, 0, 0, 0)].
Proof. vm_compute. reflexivity. Qed.

Example repeater_idle :
  (forall i, i < length caps3 -> h_units (host_at (nrun (ninit caps3) repeater) i) = []) /\
  n_pend (nrun (ninit caps3) repeater) = [].
Proof.
  split; [|vm_compute; reflexivity].
  intros i Hi. destruct i as [|[|[|i]]]; try (vm_compute; reflexivity). simpl in Hi. lia.
Qed.

(* ... hence, by the theorem, nothing is left anywhere (and by computation: the same) *)
Example repeater_all_empty : forall j,
  virt (nth_node (n_net (nrun (ninit caps3) repeater)) j) = [] /\ sims (nth_node (n_net (nrun (ninit caps3) repeater)) j) = [] /\
  regs (nth_node (n_net (nrun (ninit caps3) repeater)) j) = [] /\ numRegs (nth_node (n_net (nrun (ninit caps3) repeater)) j) = 0.
Proof. exact (net_stop_leaves_nothing caps3 repeater repeater_clean (proj1 repeater_idle) (f_equal halves (proj2 repeater_idle))). Qed.

Example repeater_all_empty_computed : populations (nrun (ninit caps3) repeater) = [(0, 0, 0, 0); (0, 0, 0, 0); (0, 0, 0, 0)].
Proof. vm_compute. reflexivity. Qed.

(* an unclaimed half belongs to no application: host 1 never polls, both applications stop (both stops complete), every
   unit module is gone -- and node 1 still holds the half, simulated in a register of node 0.  The hypothesis
   n_pend = [] of net_stop_leaves_nothing cannot be dropped. *)
Definition unclaimed_history : list nact :=
  [AInstr 0 (QInitApp 0 1); AInstr 1 (QInitApp 0 1); ACreate 0 0 0 [0; 1] 1 true 0 [];
   AInstr 0 (QStopApp 0 [false]); AInstr 1 (QStopApp 0 [])].
Example unclaimed_half_stays :
  cleans (ninit [(4, 5); (4, 5)]) unclaimed_history /\
  nrun_res (ninit [(4, 5); (4, 5)]) unclaimed_history = [RDone None; RDone None; RDone None; RDone None; RDone None] /\
  map h_units (n_hosts (nrun (ninit [(4, 5); (4, 5)]) unclaimed_history)) = [[]; []] /\
  length (n_pend (nrun (ninit [(4, 5); (4, 5)]) unclaimed_history)) = 1 /\
  populations (nrun (ninit [(4, 5); (4, 5)]) unclaimed_history) = [(0, 1, 1, 1); (1, 0, 0, 0)].
Proof. split; [apply cleansb_ok; vm_compute; reflexivity|]. vm_compute. repeat split; reflexivity. Qed.

(* the formerly excluded case (the former finding C11:epr-temporaries): a creation refused by a full receiver after both
   temporaries exist, and one refused by the creator's own node at the second cmd_new.  Both are ordinary clean actions now:
   the request answers an error, the populations of all nodes and the creator's host are what they were before the request
   (the creator holds another qubit before and after), the stop completes and leaves nothing *)
Definition caps_full : list (nat * nat) := [(4, 5); (0, 5)].
Definition before_full : list nact := [AInstr 0 (QInitApp 0 2); AInstr 0 (QAlloc 0 1)].
Definition create_full : nact := ACreate 0 0 0 [0; 1] 1 true 0 [true; false].
Definition after_full : list nact := [AInstr 0 (QStopApp 0 [false])].
Example failed_creation_is_clean :
  cleans (ninit caps_full) (before_full ++ [create_full] ++ after_full) /\
  fails_after_temporary 0 (mkQ (n_net (nrun (ninit caps_full) before_full)) (host_at (nrun (ninit caps_full) before_full) 0))
    [0; 1] 1 true (fresh_id (h_used (host_at (nrun (ninit caps_full) before_full) 0))) [true; false] /\
  nrun_res (ninit caps_full) (before_full ++ [create_full] ++ after_full) = [RDone None; RDone None; RErr; RDone None] /\
  populations (nrun (ninit caps_full) before_full) = [(1, 1, 1, 1); (0, 0, 0, 0)] /\
  populations (nrun (ninit caps_full) (before_full ++ [create_full])) = [(1, 1, 1, 1); (0, 0, 0, 0)] /\
  n_hosts (nrun (ninit caps_full) (before_full ++ [create_full])) = n_hosts (nrun (ninit caps_full) before_full) /\
  populations (nrun (ninit caps_full) (before_full ++ [create_full] ++ after_full)) = [(0, 0, 0, 0); (0, 0, 0, 0)].
Proof.
  split; [apply cleansb_ok; vm_compute; reflexivity|]. split.
  - split; [vm_compute; discriminate|]. exists 1. vm_compute. auto.
  - vm_compute. repeat split; reflexivity.
Qed.

Definition caps_tight : list (nat * nat) := [(2, 5); (4, 5)].
Definition create_tight : nact := ACreate 0 0 0 [0; 1] 1 true 0 [true].
Example failed_second_creation_is_clean :
  cleans (ninit caps_tight) (before_full ++ [create_tight] ++ after_full) /\
  fails_after_temporary 0 (mkQ (n_net (nrun (ninit caps_tight) before_full)) (host_at (nrun (ninit caps_tight) before_full) 0))
    [0; 1] 1 true (fresh_id (h_used (host_at (nrun (ninit caps_tight) before_full) 0))) [true] /\
  nrun_res (ninit caps_tight) (before_full ++ [create_tight] ++ after_full) = [RDone None; RDone None; RErr; RDone None] /\
  populations (nrun (ninit caps_tight) (before_full ++ [create_tight])) = populations (nrun (ninit caps_tight) before_full) /\
  n_hosts (nrun (ninit caps_tight) (before_full ++ [create_tight])) = n_hosts (nrun (ninit caps_tight) before_full) /\
  populations (nrun (ninit caps_tight) (before_full ++ [create_tight] ++ after_full)) = [(0, 0, 0, 0); (0, 0, 0, 0)].
Proof.
  split; [apply cleansb_ok; vm_compute; reflexivity|]. split.
  - split; [vm_compute; discriminate|]. exists 1. vm_compute. auto.
  - vm_compute. repeat split; reflexivity.
Qed.
