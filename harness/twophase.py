"""Lock-point order of a recorded run (coq/theories/Conc/TwoPhase.v, Python mirror of `sched`, `legal`, `two_phase`, `lock_order`).

Conc/TwoPhase.v proves: a legal, covered, two-phase schedule has the results of the sequential execution in the order of the
operations' LAST lock acquisition.  The lock events of a run are recorded (and tied to model L); the accesses are not.  So the theorem
predicts which sequential order explains a run IF the implementation's accesses are covered by node locks.  This module computes the
predicted order from the trace so that harness/props/concprop.py can compare it with the orders the independent oracle found."""


def lock_schedule(trace):
    """node-lock events of a run as the abstract schedule: ('Lk'|'Ul', op, node).  A release that found the lock free
    (`if locked: release()`, virtual.py 335-338) changes nothing and is dropped."""
    out = []
    for ev in trace:
        if ev[0] == "acq":
            out.append(("Lk", ev[2], ev[1]))
        elif ev[0] == "rel" and ev[5]:
            out.append(("Ul", ev[2], ev[1]))
    return out


def legal(s):
    """locks exclusive: Lk only on a free lock, Ul only by the holder"""
    h = {}
    for (k, o, n) in s:
        if k == "Lk":
            if h.get(n) is not None:
                return False
            h[n] = o
        else:
            if h.get(n) != o or o is None:
                return False
            h[n] = None
    return True


def two_phase(s):
    """no operation locks after it has unlocked"""
    shrinking = set()
    for (k, o, n) in s:
        if k == "Ul":
            shrinking.add(o)
        elif o in shrinking:
            return False
    return True


def lock_order(s):
    """operations by the position of their last Lk"""
    last = {}
    for i, (k, o, n) in enumerate(s):
        if k == "Lk":
            last[o] = i
    return sorted(last, key=lambda o: last[o])


def consistent(perm, order):
    """perm (a sequential order of all operations) lists the operations of `order` in that relative order; operations without a
    lock point (refused before any lock was requested) may stand anywhere"""
    pos = {o: i for i, o in enumerate(perm)}
    idx = [pos[o] for o in order if o in pos]
    return idx == sorted(idx)


def verdict(res, scn, matching_orders, in_listed_class):
    """classification of one completed, serializable run.
    returns (tag, info): tag in
       'listed-class'     the run lies in the trigger class of a listed finding (D6 / D23): no prediction
       'unattributed'     a lock event without an operation
       'not-legal'        lock events are not exclusive (foreign release ...)
       'not-two-phase'    an operation locked after unlocking (_lock_nodes retry, _lock_simulating_node re-check)
       'lockpoint'        the sequential run in lock-point order is among the matching ones
       'other'            serializable, but not in lock-point order"""
    if in_listed_class:
        return "listed-class", None
    s = lock_schedule(res.trace)
    if any(o is None for (_, o, _) in s):
        return "unattributed", None
    if not legal(s):
        return "not-legal", None
    if not two_phase(s):
        return "not-two-phase", None
    lo = lock_order(s)
    if any(consistent(p, lo) for p in matching_orders):
        return "lockpoint", lo
    return "other", lo


def coq_sched(s):
    return "[" + "; ".join("%s %d %d" % e for e in s) + "]"
