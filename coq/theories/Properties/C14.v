(* C14 — stabilizer measurement.  Only statements, each closed by `exact`, each followed by Print Assumptions.
   Proofs: Stab/MeasureProof.v (on top of Group.v, MulProof.v, GaussProof.v).

   Frame.  `measure n p` moves the columns of qubit p to the front (`perm_row`), eliminates, edits rows, and moves the
   columns back (`unperm_row`).  The group-level theorems are stated in that measured-qubit-first frame:
     framed n p t      = map (perm_row n p) t          eliminated n p t = gauss n (framed n p t)
     core_inplace n b tmp = the in-place result of the random branch before `map (unperm_row n p)`
     zrow n b          = the row  (-1)^b Z_0
   NOT proved (hence the `_partial` names): that perm_row / unperm_row are a relabelling of qubit positions at the group
   level (transport of `gen` along the position permutation), the destructive branch at the group level, and everything that needs uniqueness of the reduced row echelon
   form (`contains` decides membership: outcome of the deterministic branch, repeat outcome).  Full statements intended:
     meas_random     : random_branch n p t = true -> valid n t -> p < n -> forall b,
                         outcome (measure n p true b t) = b /\
                         forall g, gen n (result (measure n p true b t)) g <->
                                   exists k h, g = pmul (zpow p b k) h /\ gen n t h /\ commutes h (Z_p)
     meas_determined : random_branch n p t = false -> valid n t -> p < n ->
                         (gen n t (+Z_p) \/ gen n t (-Z_p)) /\ (outcome = false <-> gen n t (+Z_p)) /\
                         same_group n (result (measure n p true b t)) t
     meas_destructive: result of measure n p false b t generates { g restricted to positions <> p : g in the in-place
                         group, g acts as I on p }, n-1 independent commuting generators
     meas_repeat     : measure n p true b' (result (measure n p true b t)) returns the same outcome and the same group
   These are covered by the exhaustive correspondence + numpy oracle (all states on 1..3 qubits) as a TEST only. *)
From Coq Require Import List Bool Arith.
From SQ Require Import Base.ListUtil Stab.Pauli Stab.Kernels Stab.Gates Stab.Tableau Stab.Group Stab.GroupGates
  Stab.GaussProof Stab.MeasureProof Stab.Examples.
Import ListNotations.

(* random branch: the outcome is the coin, for both coins (hence both outcomes occur), in place and destructive *)
Theorem C14_meas_random_outcome : forall n p ip coin t,
  random_branch n p t = true -> fst (fst (measure n p ip coin t)) = coin.
Proof. exact meas_random_outcome. Qed.
Print Assumptions C14_meas_random_outcome.

(* random branch, in place: elimination keeps the group; exactly row 0 carries X/Y on the measured qubit; the result
   generates < (-1)^coin Z_0 > together with the remaining (Z_0-commuting) generators *)
Theorem C14_meas_random_partial : forall n p coin t, 1 <= n ->
  wf_tab n (framed n p t) -> commuting n (framed n p t) -> random_branch n p t = true ->
  let tmp := eliminated n p t in
  measure n p true coin t = (coin, n, map (unperm_row n p) (core_inplace n coin tmp)) /\
  same_group n tmp (framed n p t) /\
  get (nth 0 tmp []) 0 = true /\ (forall j, 1 <= j < length tmp -> get (nth j tmp []) 0 = false) /\
  same_group n (core_inplace n coin tmp) (zrow n coin :: skipn 1 tmp).
Proof. exact meas_random_framed. Qed.
Print Assumptions C14_meas_random_partial.

(* the new generator really is (-1)^coin Z on the measured qubit, identity elsewhere *)
Theorem C14_new_generator : forall n b, 1 <= n ->
  decode_ph n (zrow n b) = (ph_of_sign b, PZ :: repeat PI (n - 1)).
Proof. exact decode_zrow. Qed.
Print Assumptions C14_new_generator.

(* deterministic branch, in place: nothing carries X/Y on the measured qubit and the group is unchanged *)
Theorem C14_meas_determined_partial : forall n p coin t, 1 <= n ->
  commuting n (framed n p t) -> random_branch n p t = false ->
  let tmp := eliminated n p t in
  measure n p true coin t = (negb (contains n tmp (z_first n)), n, map (unperm_row n p) tmp) /\
  same_group n tmp (framed n p t) /\
  (forall r, In r tmp -> get r 0 = false).
Proof. exact meas_determined_framed. Qed.
Print Assumptions C14_meas_determined_partial.

(* towards repeatability: after an in-place random-branch measurement no generator carries X/Y on the measured qubit,
   and such a tableau is sent to the deterministic branch (whose result has the same group, see above) *)
Theorem C14_meas_repeat_partial_1 : forall n coin tmp, 1 <= n -> wf_tab n tmp ->
  (forall j, 1 <= j < length tmp -> get (nth j tmp []) 0 = false) ->
  col0_clear (core_inplace n coin tmp).
Proof. exact core_inplace_col0. Qed.
Print Assumptions C14_meas_repeat_partial_1.
Theorem C14_meas_repeat_partial_2 : forall n u, 1 <= n -> col0_clear u -> get (nth 0 (gauss n u) []) 0 = false.
Proof. exact col0_clear_deterministic. Qed.
Print Assumptions C14_meas_repeat_partial_2.

(* random branch: the generators that are kept (rows 1.. after elimination) generate exactly the elements of the
   pre-measurement group that commute with Z on the measured qubit; with C14_meas_random_partial the in-place result is
   therefore  < (-1)^coin Z_0 > . { g in G : g commutes with Z_0 }  in the measured-qubit-first frame *)
Theorem C14_meas_random_kept_part : forall n p t, 1 <= n ->
  commuting n (framed n p t) -> random_branch n p t = true ->
  forall h, gen n (skipn 1 (eliminated n p t)) h <->
            (gen n (framed n p t) h /\ anti_l (snd h) (z0 n) = false).
Proof. exact meas_random_kept_part. Qed.
Print Assumptions C14_meas_random_kept_part.

(* non-vacuity: the Bell pair is in the random branch (both outcomes computed), |00> in the deterministic one *)
Theorem C14_nonvacuous_random :
  1 <= 2 /\ wf_tab 2 (framed 2 1 bell) /\ commuting 2 (framed 2 1 bell) /\ random_branch 2 1 bell = true.
Proof. exact bell_random_branch. Qed.
Print Assumptions C14_nonvacuous_random.
Theorem C14_nonvacuous_determined :
  commuting 2 (framed 2 1 (zero_state 2)) /\ random_branch 2 1 (zero_state 2) = false.
Proof. exact zero_determined_branch. Qed.
Print Assumptions C14_nonvacuous_determined.
Theorem C14_bell_both_outcomes :
  fst (fst (measure 2 1 true false bell)) = false /\ fst (fst (measure 2 1 true true bell)) = true /\
  snd (measure 2 1 true true bell) = [[false; false; false; true; true]; [false; false; true; false; true]].
Proof. exact bell_measured_both_outcomes. Qed.
Print Assumptions C14_bell_both_outcomes.
