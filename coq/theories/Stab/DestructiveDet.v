(* Destructive measurement, deterministic branch, at group level (original frame): the (n-1)-qubit result generates
   exactly the elements of the (unchanged) group that act as I on the measured qubit, with that position deleted;
   n-1 commuting independent generators.  Needs +-Z_p in the group (maximality) and the rref structure. *)
From Coq Require Import List Bool Arith Lia.
From SQ Require Import Base.ListUtil Stab.Pauli Stab.Kernels Stab.Gates Stab.Tableau Stab.Group Stab.GroupGates
  Stab.MulProof Stab.GaussProof Stab.MeasureProof Stab.TensorProof Stab.PermProof Stab.MeasureOrig
  Stab.F2 Stab.Rref Stab.GaussRref Stab.GaussIndep Stab.Bridge Stab.DestructiveProof Stab.EqProof Stab.Isotropic
  Stab.MeasureFull.
Import ListNotations.

Definition keep_cols (n p : nat) : list nat :=
  filter (fun j => negb (Nat.eqb j p) && negb (Nat.eqb j (p + n))) (seq 0 (2 * n + 1)).
Definition delp (n p : nat) (r : row) : row := map (get r) (keep_cols n p).

Lemma keep_cols_split n p : p < n ->
  keep_cols n p = seq 0 p ++ seq (S p) (n - 1) ++ seq (S (p + n)) (n - p).
Proof.
  intro H. unfold keep_cols.
  assert (E : seq 0 (2 * n + 1) = seq 0 p ++ p :: seq (S p) (n - 1) ++ (p + n) :: seq (S (p + n)) (n - p)).
  { replace (2 * n + 1) with (p + S ((n - 1) + S (n - p))) by lia. rewrite seq_app. cbn [seq Nat.add]. f_equal. f_equal.
    rewrite seq_app. f_equal. cbn [seq]. replace (S p + (n - 1)) with (p + n) by lia. reflexivity. }
  rewrite E, filter_app. cbn [filter]. rewrite Nat.eqb_refl. cbn [negb andb]. rewrite filter_app. cbn [filter].
  rewrite (Nat.eqb_refl (p + n)). rewrite andb_false_r.
  rewrite !filter_all; auto; intros x Hx; apply in_seq in Hx;
    destruct (Nat.eqb_spec x p); destruct (Nat.eqb_spec x (p + n)); auto; lia.
Qed.

Lemma get_map_seq (f : nat -> bool) s len k : k < len -> get (map f (seq s len)) k = f (s + k).
Proof.
  intro H. unfold get. rewrite (nth_indep _ false (f 0)) by (rewrite map_length, seq_length; auto).
  rewrite map_nth, seq_nth; auto.
Qed.

Lemma delp_unperm n p r : p < n -> wf_row n r -> delp n p (unperm_row n p r) = drop0 n r.
Proof.
  intros Hp Hw. assert (Hn : 1 <= n) by lia. unfold delp. rewrite keep_cols_split by auto.
  apply nth_ext_bool.
  - pose proof (drop0_wf n r Hn Hw) as W. unfold wf_row in W. rewrite W, !map_length, !app_length, !seq_length. lia.
  - intros k Hk. rewrite !map_length, !app_length, !seq_length in Hk.
    rewrite get_drop0 by auto. rewrite !map_app, get_app, map_length, seq_length.
    destruct (Nat.ltb_spec k p) as [H1|H1].
    + rewrite get_map_seq by auto. rewrite get_unperm_row by lia. unfold unperm_col. cbn [Nat.add].
      destruct (Nat.eqb_spec k (2 * n)); [lia|]. destruct (Nat.ltb_spec k n); [|lia]. rewrite Nat.sub_0_r.
      destruct (Nat.eqb_spec k p); [lia|]. destruct (Nat.ltb_spec k p); [|lia].
      destruct (Nat.ltb_spec k (n - 1)); [|lia]. f_equal.
    + rewrite get_app, map_length, seq_length.
      destruct (Nat.ltb_spec (k - p) (n - 1)) as [H2|H2].
      * rewrite get_map_seq by auto. rewrite get_unperm_row by lia. unfold unperm_col.
        destruct (Nat.eqb_spec (S p + (k - p)) (2 * n)); [lia|].
        destruct (Nat.ltb_spec (S p + (k - p)) n) as [H3|H3].
        -- rewrite Nat.sub_0_r. destruct (Nat.eqb_spec (S p + (k - p)) p); [lia|].
           destruct (Nat.ltb_spec (S p + (k - p)) p); [lia|].
           destruct (Nat.ltb_spec k (n - 1)); [|lia]. f_equal. lia.
        -- destruct (Nat.eqb_spec (S p + (k - p) - n) p); [lia|].
           destruct (Nat.ltb_spec (S p + (k - p) - n) p); [|lia].
           destruct (Nat.ltb_spec k (n - 1)); [lia|]. f_equal. lia.
      * rewrite get_map_seq by lia. rewrite get_unperm_row by lia. unfold unperm_col.
        destruct (Nat.ltb_spec k (n - 1)); [lia|].
        destruct (Nat.eqb_spec (S (p + n) + (k - p - (n - 1))) (2 * n)) as [E|E]; [f_equal; lia|].
        destruct (Nat.ltb_spec (S (p + n) + (k - p - (n - 1))) n); [lia|].
        destruct (Nat.eqb_spec (S (p + n) + (k - p - (n - 1)) - n) p); [lia|].
        destruct (Nat.ltb_spec (S (p + n) + (k - p - (n - 1)) - n) p); [lia|]. f_equal. lia.
Qed.

Lemma filter_map {A B} (f : B -> bool) (u : A -> B) l : filter f (map u l) = map u (filter (fun x => f (u x)) l).
Proof. induction l as [|x l IH]; simpl; auto. destruct (f (u x)); simpl; rewrite IH; reflexivity. Qed.

Lemma measure_determined_destructive n p coin t : p < n -> wf_tab n (eliminated n p t) -> random_branch n p t = false ->
  measure n p false coin t =
  (negb (contains n (eliminated n p t) (z_first n)), n - 1,
   map (drop0 n) (filter (fun r => negb (get r n)) (eliminated n p t))).
Proof.
  intros Hp Hw Hr. unfold random_branch in Hr. unfold measure. fold (eliminated n p t) in *. rewrite Hr. cbn [negb].
  f_equal. fold (keep_cols n p). change (fun r : row => map (get r) (keep_cols n p)) with (delp n p).
  rewrite filter_map, map_map.
  rewrite (filter_ext_in (fun x => negb (get (unperm_row n p x) (n + p))) (fun r => negb (get r n))).
  - apply map_ext_in. intros r Hr'. apply filter_In in Hr'. destruct Hr' as [Hin _].
    apply delp_unperm; auto. unfold wf_tab in Hw. rewrite Forall_forall in Hw. auto.
  - intros r _. rewrite get_unperm_row by lia. unfold unperm_col.
    destruct (Nat.eqb_spec (n + p) (2 * n)); [lia|]. destruct (Nat.ltb_spec (n + p) n); [lia|].
    replace (n + p - n) with p by lia. rewrite Nat.eqb_refl. rewrite Nat.add_0_r || idtac. reflexivity.
Qed.

(* ---------- sublists --------------------------------------------------------------------------------------- *)
Lemma gprod_filter n (f : row -> bool) : forall t sel, length sel = length (filter f t) ->
  exists sel', length sel' = length t /\ gprod n sel' t = gprod n sel (filter f t) /\
               (forallb negb sel' = true -> forallb negb sel = true).
Proof.
  induction t as [|r t IH]; intros sel HL; cbn [filter] in *.
  - exists []. destruct sel; [|discriminate]. auto.
  - destruct (f r).
    + destruct sel as [|s sel]; [discriminate|]. simpl in HL. destruct (IH sel ltac:(lia)) as (sel' & L & E & F).
      exists (s :: sel'). split; [simpl; lia|]. split; [cbn [gprod]; rewrite E; reflexivity|].
      cbn [forallb]. intro H. apply andb_true_iff in H. destruct H as [-> H]. simpl. auto.
    + destruct (IH sel HL) as (sel' & L & E & F). exists (false :: sel'). split; [simpl; lia|]. split; auto.
Qed.

Lemma independent_filter n f t : independent n t -> independent n (filter f t).
Proof.
  intros I sel HL E. destruct (gprod_filter n f t sel HL) as (sel' & L & Eg & F). apply F. apply I; auto. rewrite Eg; auto.
Qed.

Lemma filter_one_out {A} (f : A -> bool) d : forall l i, i < length l -> f (nth i l d) = false ->
  (forall i', i' < length l -> i' <> i -> f (nth i' l d) = true) -> length (filter f l) = length l - 1.
Proof.
  induction l as [|a l IH]; intros i Hi Hf Hall; simpl in *; [lia|]. destruct i as [|i].
  - rewrite Hf. rewrite filter_all; [lia|]. intros x Hx. apply (In_nth _ _ d) in Hx. destruct Hx as (k & Hk & <-).
    apply (Hall (S k)); lia.
  - rewrite (Hall 0) by lia. simpl. rewrite (IH i); try lia; auto.
    intros i' Hi' Hne. apply (Hall (S i')); lia.
Qed.

Lemma nth_z0 n k : nth k (z0 n) PI = if Nat.eqb k 0 then PZ else PI.
Proof. unfold z0. destruct k; simpl; auto. apply nth_repeat_PI. Qed.

Lemma pbit_z0 n j : 1 <= n -> j < 2 * n -> pbit n (z0 n) j = Nat.eqb j n.
Proof.
  intros Hn Hj. unfold pbit. rewrite !nth_z0. destruct (Nat.ltb_spec j n).
  - destruct (Nat.eqb_spec j n); [lia|]. destruct (Nat.eqb j 0); reflexivity.
  - destruct (Nat.eqb_spec (j - n) 0); destruct (Nat.eqb_spec j n); auto; lia.
Qed.

(* ---------- the theorem ------------------------------------------------------------------------------------- *)
Theorem meas_determined_destructive n p coin t : p < n -> valid n t -> length t = n -> random_branch n p t = false ->
  exists res resd,
    measure n p true coin t = (fst (fst (measure n p true coin t)), n, res) /\
    measure n p false coin t = (fst (fst (measure n p true coin t)), n - 1, resd) /\
    same_group n res t /\
    wf_tab (n - 1) resd /\ commuting (n - 1) resd /\ independent (n - 1) resd /\ length resd = n - 1 /\
    (forall g, gen (n - 1) resd g <->
       exists g', gen n res g' /\ nth p (snd g') PI = PI /\ g = (fst g', remove_at p (snd g'))).
Proof.
  intros Hp V L Hr. assert (Hn : 1 <= n) by lia.
  pose proof (meas_determined_pm n p t Hp V L Hr) as PM.
  pose proof (eliminated_valid n p t Hp V) as (Wt & Ct & It).
  destruct V as (W & C & I).
  assert (Cf : commuting n (framed n p t)) by (apply perm_commuting; auto).
  destruct (meas_determined_framed n p coin t Hn Cf Hr) as (Em & Gt & C0).
  destruct (meas_determined n p coin t Hp W C Hr) as (res & Em' & _ & _ & _ & SG & _).
  rewrite Em in Em'. injection Em' as <-.
  pose proof (measure_determined_destructive n p coin t Hp Wt Hr) as Ed.
  set (tmp := eliminated n p t) in *.
  set (K := filter (fun r => negb (get r n)) tmp) in *.
  (* the unit row *)
  assert (Sz : inspan (2 * n) tmp (fun j => Nat.eqb j n)).
  { assert (Gs : exists s, gen n tmp (s, z0 n)).
    { destruct PM as [G|G]; [exists P0|exists P2]; apply gen_z_frame; auto. }
    destruct Gs as (s & Gs). apply (inspan_ext _ _ (pbit n (snd (s, z0 n)))); [|apply gen_inspan; auto].
    intros j Hj. apply pbit_z0; auto. }
  pose proof (gauss_full_rref n (framed n p t) (perm_independent n p t Hp W I)) as RR. fold (eliminated n p t) in RR. fold tmp in RR.
  destruct (rref_unit_vector (2 * n) tmp n RR ltac:(lia) Sz) as (i & Hi & Ui & Uo).
  set (u := nth i tmp []) in *.
  assert (Hu : In u tmp) by (apply nth_In; auto).
  assert (Du : decode_ph n u = (ph_of_sign (get u (2 * n)), z0 n)).
  { unfold decode_ph, lift. rewrite (surjective_pairing (decode n u)). cbn [fst snd]. f_equal.
    apply (pbit_ext n); [apply decode_length | apply z0_length; auto |]. intros j Hj.
    rewrite pbit_decode, pbit_z0 by auto. apply Ui; auto. }
  assert (InT : forall r, In r tmp <-> In r (u :: K)).
  { intro r. split.
    - intro Hin. apply (In_nth _ _ []) in Hin. destruct Hin as (i' & Hi' & <-).
      destruct (Nat.eq_dec i' i) as [->|Hne]; [left; reflexivity|]. right. apply filter_In. split; [apply nth_In; auto|].
      cbv beta. apply negb_true_iff. exact (Uo i' Hi' Hne).
    - intros [<-|Hin]; auto. apply filter_In in Hin. tauto. }
  assert (HK : forall r, In r K -> wf_row n r /\ get r 0 = false /\ get r n = false).
  { intros r Hin. apply filter_In in Hin. destruct Hin as [Hin Hz]. repeat split; auto.
    - apply (wf_in n tmp); auto.
    - destruct (get r n); auto; discriminate. }
  assert (Hcd : forall r, In r K -> decode_ph n ((fun x : row => x) r) = pcons PI (decode_ph (n - 1) (drop0 n r))).
  { intros r Hin. destruct (HK r Hin) as (Wr & X0 & Z0). unfold decode_ph, lift, pcons. rewrite drop0_decode by auto.
    unfold decode. cbn [fst snd]. f_equal. rewrite (seq_0_S n Hn). cbn [map tl]. f_equal.
    unfold pauli_at. rewrite Nat.add_0_l, X0, Z0. reflexivity. }
  assert (Kid : map (fun x : row => x) K = K) by apply map_id.
  assert (CK : commuting n K).
  { apply (commuting_of_in n tmp); auto. intros r Hin. apply filter_In in Hin. tauto. }
  assert (Cent : forall h, gen n K h -> anti_l (snd h) (snd (decode_ph n u)) = false).
  { intros h Gh. rewrite <- Kid in Gh. apply (lift0_fwd n Hn K _ _ Hcd) in Gh. destruct Gh as (g2 & _ & ->).
    rewrite Du. unfold pcons, z0. cbn [snd anti_l]. rewrite anti_l_repeat_PI_r. reflexivity. }
  assert (SGK : same_group n tmp (u :: K)) by (apply same_group_of_in; auto).
  set (D := map (drop0 n) K) in *.
  exists (map (unperm_row n p) tmp), D.
  split; [rewrite Em; reflexivity|]. split; [rewrite Ed, Em; reflexivity|]. split; [exact SG|].
  split.
  { unfold wf_tab. rewrite Forall_forall. intros r Hin. apply in_map_iff in Hin. destruct Hin as (r1 & <- & Hin).
    apply drop0_wf; auto. apply HK; auto. }
  split; [apply (lift0_commuting n K _ _ Hcd); rewrite Kid; auto|].
  split; [apply (lift0_independent n Hn K _ _ Hcd); rewrite Kid; apply independent_filter; auto|].
  split.
  { unfold D. rewrite map_length. unfold K. rewrite (filter_one_out _ [] tmp i Hi).
    - unfold tmp, eliminated. rewrite gauss_length by auto. unfold framed. rewrite map_length. lia.
    - cbv beta. apply negb_false_iff. rewrite <- (Nat.eqb_refl n). apply (Ui n). lia.
    - intros i' Hi' Hne. cbv beta. apply negb_true_iff. exact (Uo i' Hi' Hne). }
  intro g. split.
  - intro Gg.
    assert (Lg : length (snd g) = n - 1) by (eapply gen_length; eauto).
    exists (punframe p (pcons PI g)).
    assert (E1 : pframe p (punframe p (pcons PI g)) = pcons PI g).
    { apply pframe_punframe. unfold pcons; cbn [snd length]. lia. }
    split; [|split].
    + apply (unperm_group n p tmp Hp Wt). exists (pcons PI g). split; auto.
      apply SGK. apply gen_tail. rewrite <- Kid. apply (lift0_bwd n Hn K _ _ Hcd). auto.
    + change (nth p (snd (punframe p (pcons PI g))) PI) with (hd PI (snd (pframe p (punframe p (pcons PI g))))).
      rewrite E1. reflexivity.
    + change (remove_at p (snd (punframe p (pcons PI g)))) with (tl (snd (pframe p (punframe p (pcons PI g))))).
      rewrite E1. destruct g; reflexivity.
  - intros (g' & Gg' & Hnth & ->).
    apply (unperm_group n p tmp Hp Wt) in Gg'. destruct Gg' as (g1 & G1 & ->).
    assert (L1 : length (snd g1) = n) by (eapply gen_length; eauto).
    change (nth p (snd (punframe p g1)) PI) with (hd PI (snd (pframe p (punframe p g1)))) in Hnth.
    change (remove_at p (snd (punframe p g1))) with (tl (snd (pframe p (punframe p g1)))).
    rewrite pframe_punframe in * by lia.
    replace (fst (punframe p g1)) with (fst g1) by reflexivity.
    apply SGK in G1. apply (gen_cons_central n _ K Cent) in G1. destruct G1 as (h & Gh & E).
    rewrite <- Kid in Gh. apply (lift0_fwd n Hn K _ _ Hcd) in Gh. destruct Gh as (g2 & G2 & ->).
    destruct E as [->| ->].
    + destruct g2; exact G2.
    + exfalso. rewrite Du in Hnth. unfold pmul, pcons, z0 in Hnth. cbn [snd pmul_l hd pmul1] in Hnth.
      discriminate Hnth.
Qed.

(* ---------- measurement keeps full stabilizer states full --------------------------------------------------- *)
Theorem meas_inplace_full n p coin t : p < n -> valid n t -> length t = n ->
  let m := measure n p true coin t in snd (fst m) = n /\ valid n (snd m) /\ length (snd m) = n.
Proof.
  intros Hp V L m. pose proof (meas_inplace_valid n p coin t Hp V) as V1. fold m in V1. destruct V as (W & C & I).
  unfold m in *. destruct (random_branch n p t) eqn:Hr.
  - destruct (meas_random n p coin t Hp W C Hr) as (res & E & _ & _ & Lr & _). rewrite E in *. cbn [fst snd] in *.
    repeat split; auto; try apply V1. lia.
  - destruct (meas_determined n p coin t Hp W C Hr) as (res & E & _ & _ & Lr & _). rewrite E in *. cbn [fst snd] in *.
    repeat split; auto; try apply V1. lia.
Qed.

Theorem meas_destructive_full n p coin t : p < n -> valid n t -> length t = n ->
  let m := measure n p false coin t in snd (fst m) = n - 1 /\ valid (n - 1) (snd m) /\ length (snd m) = n - 1.
Proof.
  intros Hp V L m. unfold m. destruct (random_branch n p t) eqn:Hr.
  - destruct V as (W & C & I).
    destruct (meas_random_destructive n p coin t Hp W C Hr) as (res & resd & _ & E & Wd & Cd & Ld & _ & Hi).
    rewrite E. cbn [fst snd]. repeat split; auto; [apply Hi; auto | lia].
  - destruct (meas_determined_destructive n p coin t Hp V L Hr) as (res & resd & _ & E & _ & Wd & Cd & Id & Ld & _).
    rewrite E. cbn [fst snd]. repeat split; auto.
Qed.
