#!/usr/bin/env python3
"""Fail-closed translator: the instruction -> native-operation tables of VanillaSimulaQronExecutioner
(SIMULAQRON_OPS, ROTATION_AXIS; simulaqron/netqasm_backend/executioner.py) and the operand order of the two-qubit
path (_do_two_qubit_instr / apply_two_qubit_gate)  ->  Gen/OpTableGen.v.

Generated: gen_native1, gen_native2, gen_axis, gen_control_first, each with the obligation `= hand model` (Qasm/Exec.v,
Qasm/ExecProps.v).  Any entry, key or statement shape the translator does not recognise aborts the run."""
import ast
import sys

CLASS = "VanillaSimulaQronExecutioner"
KEY1 = {"GateXInstruction": "VX", "GateYInstruction": "VY", "GateZInstruction": "VZ", "GateHInstruction": "VH",
        "GateSInstruction": "VS", "GateKInstruction": "VK", "GateTInstruction": "VT"}
KEY2 = {"CnotInstruction": "VCnot", "CphaseInstruction": "VCphase"}
VAL1 = {"apply_X": "NX", "apply_Y": "NY", "apply_Z": "NZ", "apply_H": "NH", "apply_S": "NS", "apply_K": "NK", "apply_T": "NT"}
VAL2 = {"cnot_onto": "NCnot", "cphase_onto": "NCphase"}
KEYAX = {"RotXInstruction": "AxX", "RotYInstruction": "AxY", "RotZInstruction": "AxZ"}


class TranslateError(Exception):
    pass


def fail(node, msg):
    raise TranslateError("line %s: %s" % (getattr(node, "lineno", "?"), msg))


def key_name(node):
    """instructions.vanilla.<Name>"""
    if (isinstance(node, ast.Attribute) and isinstance(node.value, ast.Attribute) and node.value.attr == "vanilla"
            and isinstance(node.value.value, ast.Name) and node.value.value.id == "instructions"):
        return node.attr
    fail(node, "table key is not instructions.vanilla.<Class>: " + ast.dump(node))


def find_assign(cls, name):
    found = [s for s in cls.body if isinstance(s, ast.Assign) and len(s.targets) == 1
             and isinstance(s.targets[0], ast.Name) and s.targets[0].id == name]
    if len(found) != 1 or not isinstance(found[0].value, ast.Dict):
        fail(cls, "%s is not assigned exactly once with a dict literal" % name)
    return found[0].value


def find_method(cls, name):
    found = [s for s in cls.body if isinstance(s, ast.FunctionDef) and s.name == name]
    if len(found) != 1:
        fail(cls, "method %s not found exactly once" % name)
    return found[0]


def kw(call, name):
    for k in call.keywords:
        if k.arg == name:
            return k.value
    fail(call, "keyword %s missing" % name)


def control_first(cls):
    """True iff address1 -> qubit_id1 -> control (receiver of the native call) and address2 -> qubit_id2 -> target (argument)"""
    m = find_method(cls, "_do_two_qubit_instr")
    args = [a.arg for a in m.args.args]
    if args != ["self", "instr", "subroutine_id", "address1", "address2"]:
        fail(m, "unexpected parameters of _do_two_qubit_instr: %r" % args)
    order = None
    ids = None
    for s in ast.walk(m):
        if isinstance(s, ast.Call) and isinstance(s.func, ast.Attribute) and s.func.attr == "_get_positions":
            a = kw(s, "addresses")
            if not (isinstance(a, ast.List) and len(a.elts) == 2 and all(isinstance(e, ast.Name) for e in a.elts)):
                fail(s, "addresses is not a two-element list of names")
            order = [e.id for e in a.elts]
        if isinstance(s, ast.Call) and isinstance(s.func, ast.Attribute) and s.func.attr == "apply_two_qubit_gate":
            q1, q2 = kw(s, "qubit_id1"), kw(s, "qubit_id2")
            for q in (q1, q2):
                if not (isinstance(q, ast.Subscript) and isinstance(q.value, ast.Name) and q.value.id == "positions"
                        and isinstance(q.slice, ast.Constant)):
                    fail(s, "qubit_id is not positions[<const>]")
            ids = [q1.slice.value, q2.slice.value]
    if order is None or ids is None:
        fail(m, "_get_positions / apply_two_qubit_gate call not found")
    first = order[ids[0]] if ids[0] in (0, 1) else None     # address feeding qubit_id1
    second = order[ids[1]] if ids[1] in (0, 1) else None
    g = find_method(cls, "apply_two_qubit_gate")
    if [a.arg for a in g.args.args] != ["self", "gate", "qubit_id1", "qubit_id2"]:
        fail(g, "unexpected parameters of apply_two_qubit_gate")
    binds = {}
    native = None
    for s in ast.walk(g):
        if isinstance(s, ast.Assign) and len(s.targets) == 1 and isinstance(s.targets[0], ast.Name) \
                and isinstance(s.value, ast.Call) and isinstance(s.value.func, ast.Attribute) \
                and s.value.func.attr == "get_virt_qubit":
            v = kw(s.value, "qubit_id")
            if not isinstance(v, ast.Name):
                fail(s, "get_virt_qubit argument is not a name")
            binds[s.targets[0].id] = v.id
        if isinstance(s, ast.Call) and isinstance(s.func, ast.Name) and s.func.id == "call_method":
            if len(s.args) != 3 or not all(isinstance(a, ast.Name) for a in s.args):
                fail(s, "call_method(control, gate, target) expected")
            native = (s.args[0].id, s.args[1].id, s.args[2].id)
    if native is None or native[1] != "gate" or native[0] not in binds or native[2] not in binds:
        fail(g, "native call of apply_two_qubit_gate not recognised")
    recv, arg = binds[native[0]], binds[native[2]]
    return first == "address1" and second == "address2" and recv == "qubit_id1" and arg == "qubit_id2"


def main(path):
    tree = ast.parse(open(path).read(), path)
    classes = [n for n in tree.body if isinstance(n, ast.ClassDef) and n.name == CLASS]
    if len(classes) != 1:
        raise TranslateError("class %s not found exactly once" % CLASS)
    cls = classes[0]
    ops = find_assign(cls, "SIMULAQRON_OPS")
    t1, t2 = {}, {}
    for k, v in zip(ops.keys, ops.values):
        name = key_name(k)
        if not (isinstance(v, ast.Constant) and isinstance(v.value, str)):
            fail(v, "table value is not a string literal")
        if name in KEY1 and v.value in VAL1:
            if KEY1[name] in t1:
                fail(k, "duplicate key " + name)
            t1[KEY1[name]] = VAL1[v.value]
        elif name in KEY2 and v.value in VAL2:
            if KEY2[name] in t2:
                fail(k, "duplicate key " + name)
            t2[KEY2[name]] = VAL2[v.value]
        else:
            fail(k, "unknown table entry %s -> %r" % (name, v.value))
    if set(t1) != set(KEY1.values()) or set(t2) != set(KEY2.values()):
        fail(ops, "SIMULAQRON_OPS does not cover exactly the vanilla gate set: %r %r" % (sorted(t1), sorted(t2)))
    ax = find_assign(cls, "ROTATION_AXIS")
    ta = {}
    for k, v in zip(ax.keys, ax.values):
        name = key_name(k)
        if name not in KEYAX or not (isinstance(v, ast.Tuple) and len(v.elts) == 3
                                     and all(isinstance(e, ast.Constant) and e.value in (0, 1) for e in v.elts)):
            fail(k, "unknown rotation entry")
        ta[KEYAX[name]] = tuple(e.value for e in v.elts)
    if set(ta) != set(KEYAX.values()):
        fail(ax, "ROTATION_AXIS incomplete")
    cf = control_first(cls)
    out = []
    out.append("(* GENERATED by translate/optable.py from %s -- do not edit *)" % path)
    out.append("From Coq Require Import List Bool Arith.")
    out.append("From SQ Require Import Net.Model Qasm.Exec Qasm.ExecProps.")
    out.append("Definition gen_native1 (g : vgate1) : g1 :=\n  match g with " +
               " | ".join("%s => %s" % (k, t1[k]) for k in sorted(t1)) + " end.")
    out.append("Definition gen_native2 (g : vgate2) : g2 :=\n  match g with " +
               " | ".join("%s => %s" % (k, t2[k]) for k in sorted(t2)) + " end.")
    out.append("Definition gen_axis (a : axis) : nat * nat * nat :=\n  match a with " +
               " | ".join("%s => (%d, %d, %d)" % ((k,) + ta[k]) for k in sorted(ta)) + " end.")
    out.append("Definition gen_control_first : bool := %s." % ("true" if cf else "false"))
    out.append("Lemma gen_native1_eq : forall g, gen_native1 g = native1 g.\nProof. destruct g; reflexivity. Qed.")
    out.append("Lemma gen_native2_eq : forall g, gen_native2 g = native2 g.\nProof. destruct g; reflexivity. Qed.")
    out.append("Lemma gen_axis_eq : forall a, gen_axis a = axis_vector a.\nProof. destruct a; reflexivity. Qed.")
    out.append("Lemma gen_control_first_eq : gen_control_first = control_first.\nProof. reflexivity. Qed.")
    print("\n".join(out))


if __name__ == "__main__":
    try:
        main(sys.argv[1])
    except TranslateError as e:
        sys.stderr.write("TranslateError: %s\n" % e)
        sys.exit(1)
