(* The verified insertion sort standing for Python's `sorted` on node names, and index/nth inverse lemmas. *)
From Coq Require Import List Bool Arith NArith String Ascii Lia Permutation Sorted.
From SQ Require Import Conf.Model.
Import ListNotations.
Open Scope list_scope.

Definition sle (a b : string) : Prop := String.leb a b = true.

Lemma insert_perm x l : Permutation (x :: l) (insert x l).
Proof.
  induction l as [|h t IH]; simpl; auto.
  destruct (String.leb x h); auto.
  eapply perm_trans; [apply perm_swap|]. constructor; auto.
Qed.

Lemma isort_perm l : Permutation l (isort l).
Proof.
  induction l as [|h t IH]; simpl; auto.
  eapply perm_trans; [|apply insert_perm]. constructor; auto.
Qed.

Lemma isort_length l : List.length (isort l) = List.length l.
Proof. symmetry; apply Permutation_length, isort_perm. Qed.

Lemma isort_In l x : In x (isort l) <-> In x l.
Proof. split; apply Permutation_in; [apply Permutation_sym|]; apply isort_perm. Qed.

Lemma isort_NoDup l : NoDup l -> NoDup (isort l).
Proof. apply Permutation_NoDup, isort_perm. Qed.

Lemma insert_sorted x l : Sorted sle l -> Sorted sle (insert x l).
Proof.
  induction l as [|h t IH]; simpl; intros Hs.
  - constructor; auto.
  - destruct (String.leb x h) eqn:E.
    + constructor; auto.
    + inversion Hs as [|? ? Hst Hhd]; subst. constructor; auto.
      assert (Hhx : sle h x).
      { destruct (String.leb_total x h) as [H|H]; [congruence|exact H]. }
      destruct t as [|h' t']; simpl.
      * constructor; auto.
      * destruct (String.leb x h'); constructor; auto. inversion Hhd; auto.
Qed.

Lemma isort_sorted l : Sorted sle (isort l).
Proof. induction l; simpl; [constructor|apply insert_sorted; auto]. Qed.

(* transitivity of the string order (not in the 8.16 standard library) *)
Lemma ascii_compare_lt_trans x y z :
  Ascii.compare x y = Lt -> Ascii.compare y z = Lt -> Ascii.compare x z = Lt.
Proof.
  unfold Ascii.compare. rewrite !N.compare_lt_iff. apply N.lt_trans.
Qed.

Lemma compare_not_gt_trans a : forall b c,
  String.compare a b <> Gt -> String.compare b c <> Gt -> String.compare a c <> Gt.
Proof.
  induction a as [|x a IH]; intros b c Hab Hbc.
  - destruct c; simpl; congruence.
  - destruct b as [|y b]; simpl in Hab; [congruence|].
    destruct c as [|z c]; simpl in Hbc; [congruence|].
    simpl.
    destruct (Ascii.compare x y) eqn:Exy; try congruence.
    + apply Ascii.compare_eq_iff in Exy. subst y.
      destruct (Ascii.compare x z) eqn:Exz; try congruence. eapply IH; eauto.
    + destruct (Ascii.compare y z) eqn:Eyz; try congruence.
      * apply Ascii.compare_eq_iff in Eyz. subst z. rewrite Exy. congruence.
      * rewrite (ascii_compare_lt_trans _ _ _ Exy Eyz). congruence.
Qed.

Lemma sle_not_gt a b : sle a b <-> String.compare a b <> Gt.
Proof. unfold sle, String.leb. destruct (String.compare a b); split; congruence. Qed.

Lemma sle_trans a b c : sle a b -> sle b c -> sle a c.
Proof. rewrite !sle_not_gt. apply compare_not_gt_trans. Qed.

Lemma sle_antisym a b : sle a b -> sle b a -> a = b.
Proof. apply String.leb_antisym. Qed.

(* a sorted duplicate-free list is determined by its set of elements *)
Lemma sorted_perm_eq l1 : forall l2,
  Sorted sle l1 -> Sorted sle l2 -> Permutation l1 l2 -> l1 = l2.
Proof.
  induction l1 as [|a l1 IH]; intros l2 H1 H2 Hp.
  - apply Permutation_nil in Hp; auto.
  - destruct l2 as [|b l2]; [apply Permutation_sym, Permutation_nil in Hp; discriminate|].
    apply Sorted_StronglySorted in H1; [|intros x y z; apply sle_trans].
    apply Sorted_StronglySorted in H2; [|intros x y z; apply sle_trans].
    inversion H1 as [|? ? Hs1 Hf1]; inversion H2 as [|? ? Hs2 Hf2]; subst.
    assert (a = b).
    { assert (Ha : In a (b :: l2)) by (eapply Permutation_in; eauto; simpl; auto).
      assert (Hb : In b (a :: l1)) by (eapply Permutation_in; [apply Permutation_sym; eauto|simpl; auto]).
      destruct Ha as [->|Ha]; auto. destruct Hb as [->|Hb]; auto.
      rewrite Forall_forall in Hf1, Hf2. apply sle_antisym; auto. }
    subst b. f_equal. apply IH.
    + apply StronglySorted_Sorted; auto.
    + apply StronglySorted_Sorted; auto.
    + eapply Permutation_cons_inv; eauto.
Qed.

Lemma isort_perm_eq l1 l2 : Permutation l1 l2 -> isort l1 = isort l2.
Proof.
  intros Hp. apply sorted_perm_eq; try apply isort_sorted.
  eapply perm_trans; [apply Permutation_sym, isort_perm|].
  eapply perm_trans; [exact Hp|apply isort_perm].
Qed.

(* index_of / nth_error are mutually inverse on duplicate-free lists *)
Lemma index_of_nth l : forall x i, index_of x l = Some i -> nth_error l i = Some x.
Proof.
  induction l as [|h t IH]; simpl; intros x i H; try discriminate.
  destruct (String.eqb_spec h x) as [->|Hne].
  - inversion H; subst; auto.
  - destruct (index_of x t) eqn:E; simpl in H; try discriminate.
    inversion H; subst. simpl. auto.
Qed.

Lemma index_of_In l x : In x l -> exists i, index_of x l = Some i.
Proof.
  induction l as [|h t IH]; simpl; intros H; try contradiction.
  destruct (String.eqb_spec h x) as [->|Hne]; eauto.
  destruct H as [H|H]; [contradiction|]. destruct (IH H) as [i ->]. simpl; eauto.
Qed.

Lemma index_of_None l x : index_of x l = None -> ~ In x l.
Proof.
  intros H Hin. apply index_of_In in Hin. destruct Hin as [i Hi]. congruence.
Qed.

Lemma nth_index_of l : forall x i, NoDup l -> nth_error l i = Some x -> index_of x l = Some i.
Proof.
  induction l as [|h t IH]; intros x i Hnd H; [destruct i; discriminate|].
  inversion Hnd as [|? ? Hn Hd]; subst. destruct i as [|i]; simpl in *.
  - inversion H; subst. rewrite String.eqb_refl; auto.
  - destruct (String.eqb_spec h x) as [->|Hne].
    + exfalso; apply Hn. eapply nth_error_In; eauto.
    + rewrite (IH x i); auto.
Qed.

Lemma index_of_lt l x i : index_of x l = Some i -> i < List.length l.
Proof. intros H. apply index_of_nth in H. apply nth_error_Some. congruence. Qed.
