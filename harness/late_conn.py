"""C20, `without waiting for readiness`: a program whose operation needs a peer connection that is not up yet (in process, real virtualNode
objects, virtual clock).  Node 0 is not yet connected to node 2 when its two-qubit gate pulls a register from node 1 over; node 2 holds a
qubit of that register.  The operation must wait for the connection (get_connection retries on the clock), complete once the peer is wired,
and leave every node's bookkeeping consistent (the qubit held by node 2 is backed by the register's new simulating node)."""
import net_sync as N


def run(env, variant=0):
    """returns list of problem strings"""
    net = N.make_network(env, ["N0", "N1", "N2"], [6, 6, 6], [8, 8, 8])
    a, b, c = net.nodes
    probs = []

    def val(d, what):
        st, v = N.fire(d)
        if st != "ok":
            probs.append("%s: %s %r" % (what, st, v))
            return None
        return v
    late = a.conn.pop("N2")                       # node 0's connector to node 2 has not succeeded yet
    b1 = val(b.remote_new_qubit(), "new at N1")
    b2 = val(b.remote_new_qubit(), "new at N1")
    if probs:
        return probs
    val(b1.remote_apply_H(), "H")
    val(b1.remote_cnot_onto(b2), "cnot at N1")
    n2 = val(b.remote_send_qubit(b2, "N2"), "send N1 -> N2")
    n1 = val(b.remote_send_qubit(b1, "N0"), "send N1 -> N0")
    a0 = val(a.remote_new_qubit(), "new at N0")
    if probs:
        return probs
    qa = a.remote_get_virtual_ref(n1)
    qc = c.remote_get_virtual_ref(n2)
    if variant == 1:
        val(a0.remote_apply_H(), "H at N0")
    d = a0.remote_cnot_onto(qa) if variant != 2 else qa.remote_cphase_onto(a0)   # pulls the register N1 -> N0; node 2 must be told
    for _ in range(4):
        env.clock.advance(0.3)
    st, v = N.fire(d)
    if st == "err":
        probs.append("a two-qubit gate issued while the connection N0 -> N2 was still being set up failed with %s: %s" % (type(v).__name__, v))
        return probs
    waited = st == "pending"
    a.conn["N2"] = late                            # the connector succeeds now
    for _ in range(20):
        env.clock.advance(0.3)
    st, v = N.fire(d)
    if st != "ok":
        probs.append("the gate did not complete after the late connection came up: %s %r" % (st, v))
        return probs
    bad = N.object_graph_invariant(net)
    if bad:
        probs.append("after the gate (issued %s the connection N0 -> N2 was up): %s" % ("before" if waited else "although it did not wait until", "; ".join(bad[:2])))
        return probs
    # the qubit at node 2 must follow the register: an X there and measurements everywhere give anti-correlated Bell halves
    val(qc.remote_apply_X(), "X at N2")
    env.coins[:] = [1, 0, 1, 0]
    m_c = val(qc.remote_measure(False), "measure at N2")
    m_a = val(qa.remote_measure(False), "measure at N0")
    if not probs and variant == 0 and m_c == m_a:
        probs.append("Bell halves at N0 and N2 measured %r and %r after an X on one of them: the operation at N2 did not reach the register that was pulled to N0" % (m_a, m_c))
    env.coins[:] = []
    return probs
