(* Model G: complete / ring / path as construct_topology_config builds them are the promised graphs for EVERY n;
   the random generators given a tree and an admissible choice sequence; the range check. *)
From Coq Require Import List Bool Arith Lia.
From SQ Require Import Graph.Model Graph.Props.
Import ListNotations.

(* ---- neighbour functions on 0..n-1 ---- *)
Definition complete_nb (n i : nat) : list nat := seq 0 i ++ seq (S i) (n - S i).
Definition ring_nb (n i : nat) : list nat := [(i + n - 1) mod n; (i + 1) mod n].
Definition path_nb (n i : nat) : list nat :=
  if i =? 0 then [i + 1] else if i =? n - 1 then [i - 1] else [(i + n - 1) mod n; (i + 1) mod n].

Lemma complete_is_relabel nodes :
  complete nodes = relabel (naming nodes) (idx_graph (length nodes) (complete_nb (length nodes))).
Proof.
  unfold complete, relabel, idx_graph. rewrite map_map. apply map_ext_in. intros i Hi. apply in_seq in Hi. simpl.
  unfold naming at 1. f_equal. unfold complete_nb. rewrite map_app. f_equal.
  - symmetry. apply map_nth_seq_firstn. lia.
  - symmetry. apply (map_nth_seq_skipn 0 nodes (S i)).
Qed.

Lemma ring_is_relabel nodes :
  ring nodes = relabel (naming nodes) (idx_graph (length nodes) (ring_nb (length nodes))).
Proof. unfold ring, relabel, idx_graph. rewrite map_map. apply map_ext. intros i. reflexivity. Qed.

Lemma path_is_relabel nodes :
  path nodes = relabel (naming nodes) (idx_graph (length nodes) (path_nb (length nodes))).
Proof.
  unfold path, relabel, idx_graph. rewrite map_map. apply map_ext. intros i. simpl. unfold path_nb, naming.
  destruct (i =? 0); [reflexivity|]. destruct (i =? length nodes - 1); reflexivity.
Qed.

(* ---- arithmetic of the wrap-around indices ---- *)
Lemma pred_mod n i : 0 < n -> i < n -> (i + n - 1) mod n = if i =? 0 then n - 1 else i - 1.
Proof.
  intros Hn Hi. destruct (Nat.eqb_spec i 0) as [->|Hne].
  - simpl. apply Nat.mod_small. lia.
  - replace (i + n - 1) with (i - 1 + 1 * n) by lia. rewrite Nat.mod_add by lia. apply Nat.mod_small. lia.
Qed.

Lemma succ_mod n i : 0 < n -> i < n -> (i + 1) mod n = if S i =? n then 0 else S i.
Proof.
  intros Hn Hi. destruct (Nat.eqb_spec (S i) n) as [He|Hne].
  - replace (i + 1) with n by lia. apply Nat.mod_same. lia.
  - replace (i + 1) with (S i) by lia. apply Nat.mod_small. lia.
Qed.

Lemma tri_even n : 2 * (n * (n - 1) / 2) = n * (n - 1).
Proof.
  assert (H : exists m, n * (n - 1) = 2 * m).
  { induction n as [|n [m IH]]; [exists 0; reflexivity|].
    exists (m + n). simpl. rewrite Nat.sub_0_r. destruct n as [|n]; [simpl; lia|].
    simpl in IH. rewrite Nat.sub_0_r in IH. nia. }
  destruct H as [m ->]. rewrite (Nat.mul_comm 2 m), Nat.div_mul by lia. lia.
Qed.

(* ---- the three index graphs ---- *)
Lemma In_complete_nb n i b : i < n -> (In b (complete_nb n i) <-> b < n /\ b <> i).
Proof.
  intros Hi. unfold complete_nb. rewrite in_app_iff, !in_seq. lia.
Qed.

Lemma complete_idx_good n : good (seq 0 n) (idx_graph n (complete_nb n)) (n * (n - 1) / 2).
Proof.
  apply idx_good.
  - intros a Ha b Hb. apply In_complete_nb in Hb; auto. destruct Hb as [Hb Hne].
    repeat split; auto. apply In_complete_nb; auto.
  - intros a Ha. unfold complete_nb. apply nodup_app2; try apply seq_NoDup.
    intros x Hx Hy. apply in_seq in Hx. apply in_seq in Hy. lia.
  - intros i Hi. apply In_complete_nb; lia.
  - rewrite tri_even. rewrite (sum_const _ (n - 1)).
    + rewrite seq_length. lia.
    + intros i Hi. apply in_seq in Hi. unfold complete_nb. rewrite app_length, !seq_length. lia.
Qed.

Lemma ring_nb_eq n i : 0 < n -> i < n ->
  ring_nb n i = [if i =? 0 then n - 1 else i - 1; if S i =? n then 0 else S i].
Proof. intros Hn Hi. unfold ring_nb. rewrite pred_mod, succ_mod; auto. Qed.

Lemma In_ring_nb n i b : 3 <= n -> i < n ->
  (In b (ring_nb n i) <-> b = (if i =? 0 then n - 1 else i - 1) \/ b = (if S i =? n then 0 else S i)).
Proof. intros Hn Hi. rewrite ring_nb_eq by lia. simpl. intuition. Qed.

Lemma ring_idx_good n : 3 <= n -> good (seq 0 n) (idx_graph n (ring_nb n)) n.
Proof.
  intros Hn. apply idx_good.
  - intros a Ha b Hb. apply In_ring_nb in Hb; auto.
    assert (Hbn : b < n).
    { destruct Hb as [->| ->]; [destruct (Nat.eqb_spec a 0)|destruct (Nat.eqb_spec (S a) n)]; lia. }
    repeat split; auto.
    + destruct Hb as [->| ->]; [destruct (Nat.eqb_spec a 0)|destruct (Nat.eqb_spec (S a) n)]; lia.
    + apply In_ring_nb; auto.
      destruct Hb as [->| ->].
      * right. destruct (Nat.eqb_spec a 0) as [->|Ha0].
        -- destruct (Nat.eqb_spec (S (n - 1)) n); lia.
        -- destruct (Nat.eqb_spec (S (a - 1)) n); lia.
      * left. destruct (Nat.eqb_spec (S a) n) as [He|Hne].
        -- simpl. lia.
        -- destruct (Nat.eqb_spec (S a) 0); lia.
  - intros a Ha. rewrite ring_nb_eq by lia. constructor; [|constructor; [intros []|constructor]].
    intros [H|[]]. destruct (Nat.eqb_spec a 0); destruct (Nat.eqb_spec (S a) n); lia.
  - intros i Hi. apply In_ring_nb; try lia. left. destruct (Nat.eqb_spec i 0); lia.
  - rewrite (sum_const _ 2).
    + rewrite seq_length. lia.
    + intros i Hi. reflexivity.
Qed.

Lemma path_nb_eq n i : 2 <= n -> i < n ->
  path_nb n i = if i =? 0 then [1] else if i =? n - 1 then [i - 1] else [i - 1; S i].
Proof.
  intros Hn Hi. unfold path_nb. destruct (Nat.eqb_spec i 0) as [->|H0]; [reflexivity|].
  destruct (Nat.eqb_spec i (n - 1)) as [He|Hne]; [reflexivity|].
  rewrite pred_mod, succ_mod by lia.
  destruct (Nat.eqb_spec i 0); [lia|]. destruct (Nat.eqb_spec (S i) n); [lia|]. reflexivity.
Qed.

Lemma In_path_nb n i b : 2 <= n -> i < n ->
  (In b (path_nb n i) <-> (b + 1 = i \/ b = i + 1) /\ b < n).
Proof.
  intros Hn Hi. rewrite path_nb_eq by lia.
  destruct (Nat.eqb_spec i 0) as [->|H0]; [simpl; lia|].
  destruct (Nat.eqb_spec i (n - 1)) as [He|Hne]; simpl; lia.
Qed.

Lemma path_sum n : 2 <= n -> list_sum (map (fun i => length (path_nb n i)) (seq 0 n)) = 2 * (n - 1).
Proof.
  intros Hn.
  assert (Hs : seq 0 n = [0] ++ seq 1 (n - 2) ++ [n - 1]).
  { destruct n as [|[|m]]; try lia. replace (S (S m) - 2) with m by lia. replace (S (S m) - 1) with (1 + m) by lia.
    change (seq 0 (S (S m))) with (0 :: seq 1 (S m)). rewrite seq_S. reflexivity. }
  rewrite Hs, !map_app, !list_sum_app. simpl map.
  rewrite (sum_const _ 2).
  - rewrite seq_length. rewrite !path_nb_eq by lia. simpl.
    destruct (Nat.eqb_spec (n - 1) 0); [lia|]. rewrite Nat.eqb_refl. simpl. lia.
  - intros i Hi. apply in_seq in Hi. rewrite path_nb_eq by lia.
    destruct (Nat.eqb_spec i 0); [lia|]. destruct (Nat.eqb_spec i (n - 1)); [lia|]. reflexivity.
Qed.

Lemma path_idx_good n : 2 <= n -> good (seq 0 n) (idx_graph n (path_nb n)) (n - 1).
Proof.
  intros Hn. apply idx_good.
  - intros a Ha b Hb. apply In_path_nb in Hb; auto. destruct Hb as [Hb Hbn].
    repeat split; auto; [lia|]. apply In_path_nb; auto. lia.
  - intros a Ha. rewrite path_nb_eq by lia.
    destruct (Nat.eqb_spec a 0); [constructor; [intros []|constructor]|].
    destruct (Nat.eqb_spec a (n - 1)); [constructor; [intros []|constructor]|].
    constructor; [|constructor; [intros []|constructor]]. intros [H|[]]. lia.
  - intros i Hi. apply In_path_nb; lia.
  - apply path_sum; auto.
Qed.

(* ---- the theorems of C17 ---- *)
Theorem complete_ok nodes : NoDup nodes ->
  good nodes (complete nodes) (length nodes * (length nodes - 1) / 2).
Proof. intros H. rewrite complete_is_relabel. apply relabel_naming_good; auto. apply complete_idx_good. Qed.

Theorem ring_ok nodes : NoDup nodes -> 3 <= length nodes -> good nodes (ring nodes) (length nodes).
Proof. intros H Hn. rewrite ring_is_relabel. apply relabel_naming_good; auto. apply ring_idx_good; auto. Qed.

Theorem path_ok nodes : NoDup nodes -> 2 <= length nodes -> good nodes (path nodes) (length nodes - 1).
Proof. intros H Hn. rewrite path_is_relabel. apply relabel_naming_good; auto. apply path_idx_good; auto. Qed.

Theorem relabel_ok nodes g k :
  NoDup nodes -> good (seq 0 (length nodes)) g k -> good nodes (relabel (naming nodes) g) k.
Proof. apply relabel_naming_good. Qed.

Theorem random_tree_ok nodes t :
  NoDup nodes -> good (seq 0 (length nodes)) t (length nodes - 1) ->
  good nodes (random_tree nodes t) (length nodes - 1).
Proof. apply relabel_naming_good. Qed.

Theorem add_nonedges_ok nodes t cs n :
  good nodes t (n - 1) -> valid_choices t cs -> good nodes (add_edges t cs) (n - 1 + length cs).
Proof. intros; apply add_edges_good; auto. Qed.

Lemma range_ok_spec n k : range_ok n k = false <-> k < n - 1 \/ n * (n - 1) / 2 < k.
Proof.
  unfold range_ok. rewrite negb_false_iff, orb_true_iff, !Nat.ltb_lt.
  assert (H : n * (n - 1) < 2 * k <-> n * (n - 1) / 2 < k).
  { split; intros H.
    - apply Nat.div_lt_upper_bound; lia.
    - pose proof (tri_even n). lia. }
  rewrite H. lia.
Qed.

Theorem range_check nodes k t cs :
  random_connected nodes k t cs = None <-> k < length nodes - 1 \/ length nodes * (length nodes - 1) / 2 < k.
Proof.
  unfold random_connected. rewrite <- range_ok_spec. destruct (range_ok (length nodes) k); split; congruence.
Qed.

Theorem random_connected_ok nodes k t cs :
  NoDup nodes -> good (seq 0 (length nodes)) t (length nodes - 1) ->
  length nodes - 1 <= k <= length nodes * (length nodes - 1) / 2 ->
  k - (length nodes - 1) <= length cs ->
  valid_choices t (firstn (k - (length nodes - 1)) cs) ->
  exists g, random_connected nodes k t cs = Some g /\ good nodes g k.
Proof.
  intros Hnd Ht Hk Hcs Hv. unfold random_connected.
  destruct (range_ok (length nodes) k) eqn:Er.
  - eexists; split; [reflexivity|]. apply relabel_naming_good; auto.
    replace k with (length nodes - 1 + length (firstn (k - (length nodes - 1)) cs)) at 2
      by (rewrite firstn_length; lia).
    apply add_edges_good; auto.
  - apply range_ok_spec in Er. lia.
Qed.
