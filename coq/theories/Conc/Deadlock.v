(* C04, refuted part 1: a send addressed to the issuing node, and two crossing sends, reach states from which NO continuation
   completes them, the node locks staying held.  Invariant arguments over all continuations, in every context of
   lock-disciplined operations (creations, single-qubit operations, other sends). *)
From Coq Require Import List Bool Arith Lia.
From SQ Require Import Base.ListUtil Conc.Model Conc.Own.
Import ListNotations.

Definition ev_op (e : ev) : opid :=
  match e with
  | EIssue o | ELockn o _ | EReq _ o _ | EAcq _ o _ | ERel _ o _ | ETimeout o | EDone o => o
  end.

Ltac own_contra HS o Eo :=
  let X := fresh in pose proof (own_ops _ HS o) as X; unfold op_ok in X; rewrite Eo in X; contradiction.

(* an event of operation o' leaves the other operations and the locks held by other operations alone *)
Lemma step_frame cfg s e s' :
  all_disciplined cfg -> Own s -> step cfg s e = Some s' ->
  (forall o, o <> ev_op e -> op_of s' o = op_of s o) /\
  (forall n o b, o <> ev_op e -> lock_of s n = Some (o, b) -> lock_of s' n = Some (o, b)).
Proof.
  intros HC HS ST. destruct e as [o'|o' rs|n' o' r|n' o' r|n' o' was|o'|o']; simpl in *.
  - destruct (op_of s o') eqn:Eo; try discriminate.
    pose proof (disciplined_kind cfg o' HC) as D.
    destruct (kind_of cfg o'); simpl in D; try discriminate; inv ST;
      (split; [intros; apply op_set_neq; auto | intros; rewrite lock_set_op; auto]).
  - pose proof (disciplined_kind cfg o' HC) as D. destruct (kind_of cfg o'); simpl in D; discriminate.
  - rewrite (own_orph _ HS) in ST. simpl in ST.
    destruct (op_of s o') eqn:Eo; try discriminate; try (own_contra HS o' Eo).
    destruct prog as [|[m|m|m] p]; try discriminate. destruct cur; try discriminate.
    destruct (Nat.eqb m n'); try discriminate. inv ST.
    split; [intros; apply op_set_neq; auto | intros; rewrite lock_set_op; auto].
  - destruct (lock_of s n') eqn:El; try discriminate.
    destruct (Nat.ltb n' (length (locks s))); try discriminate.
    rewrite (own_orph _ HS) in ST. simpl in ST.
    destruct (op_of s o') eqn:Eo; try discriminate; try (own_contra HS o' Eo).
    destruct prog as [|[m|m|m] p]; try discriminate. destruct cur as [r'|]; try discriminate.
    destruct (Nat.eqb m n' && Nat.eqb r r'); try discriminate. inv ST.
    split.
    + intros. rewrite op_set_lock. apply op_set_neq; auto.
    + intros n o b Ho E. rewrite lock_set_neq; auto. intro; subst. congruence.
  - destruct (op_of s o') eqn:Eo; try discriminate; try (own_contra HS o' Eo).
    destruct prog as [|[m|m|m] p]; try discriminate. destruct cur; try discriminate.
    destruct (Nat.eqb_spec m n'); try discriminate. subst m.
    unfold rel_lock in ST. destruct (Bool.eqb was _); try discriminate. inv ST.
    destruct (own_ops_run _ _ _ _ _ HS Eo) as (W & ND & HL).
    simpl in W. apply andb_true_iff in W. destruct W as [Hm _]. apply mem_In in Hm. apply HL in Hm.
    split.
    + intros. rewrite op_set_lock. apply op_set_neq; auto.
    + intros n o b Ho E. rewrite lock_set_neq; auto. intro; subst. congruence.
  - pose proof (disciplined_kind cfg o' HC) as D. destruct (kind_of cfg o'); simpl in D; discriminate.
  - destruct (op_of s o') eqn:Eo; try discriminate; try (own_contra HS o' Eo).
    destruct prog; try discriminate. destruct cur; try discriminate. inv ST.
    split; [intros; apply op_set_neq; auto | intros; rewrite lock_set_op; auto].
Qed.

(* an operation polling for a lock that is held makes no step of its own *)
Lemma waiting_blocked cfg s e s' o held n p r x :
  all_disciplined cfg -> Own s ->
  op_of s o = SRun held (AAcq n :: p) (Some r) -> lock_of s n = Some x ->
  step cfg s e = Some s' -> ev_op e <> o.
Proof.
  intros HC HS Eo El ST Heq. destruct e as [o'|o' rs|n' o' r'|n' o' r'|n' o' was|o'|o']; simpl in *; subst o'.
  - rewrite Eo in ST. discriminate.
  - pose proof (disciplined_kind cfg o HC) as D. destruct (kind_of cfg o); simpl in D; discriminate.
  - rewrite (own_orph _ HS) in ST. simpl in ST. rewrite Eo in ST. discriminate.
  - destruct (lock_of s n') eqn:El'; try discriminate.
    destruct (Nat.ltb n' (length (locks s))); try discriminate.
    rewrite (own_orph _ HS) in ST. simpl in ST. rewrite Eo in ST.
    destruct (Nat.eqb_spec n n'); simpl in ST; try discriminate. subst. congruence.
  - rewrite Eo in ST. discriminate.
  - pose proof (disciplined_kind cfg o HC) as D. destruct (kind_of cfg o); simpl in D; discriminate.
  - rewrite Eo in ST. discriminate.
Qed.

(* ---- (a) the self-addressed send ---- *)
Definition self_stuck (s : st) (o : opid) (a : nid) : Prop :=
  (exists r, op_of s o = SRun [a] [AAcq a; ARel a; ARel a] (Some r)) /\ lock_of s a = Some (o, false).

Lemma self_stuck_step cfg s e s' o a :
  all_disciplined cfg -> Own s -> self_stuck s o a -> step cfg s e = Some s' -> self_stuck s' o a.
Proof.
  intros HC HS [[r Eo] El] ST.
  pose proof (waiting_blocked _ _ _ _ _ _ _ _ _ _ HC HS Eo El ST) as Ne.
  destruct (step_frame _ _ _ _ HC HS ST) as [F1 F2].
  split.
  - exists r. rewrite F1; auto.
  - apply F2; auto.
Qed.

Lemma self_stuck_run cfg tr : forall s s' o a,
  all_disciplined cfg -> Own s -> self_stuck s o a -> run cfg s tr = Some s' -> self_stuck s' o a.
Proof.
  induction tr as [|e t IH]; simpl; intros s s' o a HC HS K R.
  - inv R. auto.
  - destruct (step cfg s e) as [s0|] eqn:E; try discriminate.
    apply (IH s0 s' o a); auto. eapply own_step; eauto. eapply self_stuck_step; eauto.
Qed.

Lemma run_cons cfg s e t :
  run cfg s (e :: t) = match step cfg s e with Some s' => run cfg s' t | None => None end.
Proof. reflexivity. Qed.

(* symbolic execution of straight-line programs *)
Lemma step_issue cfg s o :
  op_of s o = SIdle -> disciplined (kind_of cfg o) = true ->
  step cfg s (EIssue o) = Some (set_op s o (SRun [] (prog_of (kind_of cfg o)) None)).
Proof. intros E D. simpl. rewrite E. destruct (kind_of cfg o); simpl in D; try discriminate; reflexivity. Qed.

Lemma step_req cfg s o n r held p :
  orph s = [] -> op_of s o = SRun held (AReq n :: p) None ->
  step cfg s (EReq n o r) = Some (set_op s o (SRun held p (Some r))).
Proof. intros Ho E. simpl. rewrite Ho. simpl. rewrite E, Nat.eqb_refl. reflexivity. Qed.

Lemma step_acq cfg s o n r held p :
  orph s = [] -> lock_of s n = None -> n < length (locks s) -> op_of s o = SRun held (AAcq n :: p) (Some r) ->
  step cfg s (EAcq n o r) = Some (set_lock (set_op s o (SRun (n :: held) p None)) n (Some (o, false))).
Proof.
  intros Ho El Rn E. simpl. rewrite El.
  destruct (Nat.ltb_spec n (length (locks s))); try lia.
  rewrite Ho. simpl. rewrite E, !Nat.eqb_refl. reflexivity.
Qed.

Lemma self_send_reaches_stuck cfg s o a :
  Own s -> kind_of cfg o = KSend a a -> op_of s o = SIdle -> lock_of s a = None -> a < length (locks s) ->
  exists s', run cfg s [EIssue o; EReq a o 0; EAcq a o 0; EReq a o 1] = Some s' /\ self_stuck s' o a.
Proof.
  intros HS K Eo El Ra.
  assert (Ro : o < length (ops s)) by (apply op_of_range; congruence).
  pose proof (own_orph _ HS) as Horph.
  set (s1 := set_op s o (SRun [] (prog_of (kind_of cfg o)) None)).
  assert (S1 : step cfg s (EIssue o) = Some s1) by (apply step_issue; auto; rewrite K; reflexivity).
  assert (E1 : op_of s1 o = SRun [] [AReq a; AAcq a; AReq a; AAcq a; ARel a; ARel a] None).
  { unfold s1. rewrite op_set_eq by auto. rewrite K. reflexivity. }
  set (s2 := set_op s1 o (SRun [] [AAcq a; AReq a; AAcq a; ARel a; ARel a] (Some 0))).
  assert (S2 : step cfg s1 (EReq a o 0) = Some s2) by (apply step_req; auto).
  assert (R1 : o < length (ops s1)) by (unfold s1; simpl; rewrite upd_length; auto).
  assert (E2 : op_of s2 o = SRun [] [AAcq a; AReq a; AAcq a; ARel a; ARel a] (Some 0)) by (unfold s2; apply op_set_eq; auto).
  set (s3 := set_lock (set_op s2 o (SRun [a] [AReq a; AAcq a; ARel a; ARel a] None)) a (Some (o, false))).
  assert (S3 : step cfg s2 (EAcq a o 0) = Some s3) by (apply step_acq; auto).
  assert (R2 : o < length (ops s2)) by (unfold s2; simpl; rewrite upd_length; auto).
  assert (E3 : op_of s3 o = SRun [a] [AReq a; AAcq a; ARel a; ARel a] None).
  { unfold s3. rewrite op_set_lock. apply op_set_eq; auto. }
  set (s4 := set_op s3 o (SRun [a] [AAcq a; ARel a; ARel a] (Some 1))).
  assert (S4 : step cfg s3 (EReq a o 1) = Some s4) by (apply step_req; auto).
  exists s4. split.
  - rewrite run_cons, S1, run_cons, S2, run_cons, S3, run_cons, S4. reflexivity.
  - split.
    + exists 1. unfold s4. apply op_set_eq. unfold s3; simpl. rewrite upd_length. auto.
    + unfold s4. rewrite lock_set_op. unfold s3. apply lock_set_eq. auto.
Qed.

Theorem self_send_hangs_lemma cfg nn o a :
  all_disciplined cfg -> kind_of cfg o = KSend a a -> o < length cfg -> a < nn ->
  exists tr s, run cfg (init nn cfg) tr = Some s /\
    forall tr' s', run cfg s tr' = Some s' -> done s' o = false /\ lock_of s' a = Some (o, false).
Proof.
  intros HC K Ro Ra.
  destruct (self_send_reaches_stuck cfg (init nn cfg) o a) as (s & R & St); auto.
  - apply own_init.
  - apply op_of_init_idle; auto.
  - apply lock_of_init.
  - unfold init; simpl. rewrite repeat_length. auto.
  - exists [EIssue o; EReq a o 0; EAcq a o 0; EReq a o 1], s. split; auto.
    intros tr' s' R'.
    assert (Own s) by (eapply own_run; eauto; apply own_init).
    destruct (self_stuck_run cfg tr' s s' o a HC H St R') as [[r E] L].
    split; auto. unfold done. rewrite E. reflexivity.
Qed.

(* ---- (b) crossing sends: a -> b while b -> a ---- *)
Definition cross_stuck (s : st) (o1 o2 : opid) (a b : nid) : Prop :=
  (exists r, op_of s o1 = SRun [a] [AAcq b; ARel b; ARel a] (Some r)) /\
  (exists r, op_of s o2 = SRun [b] [AAcq a; ARel a; ARel b] (Some r)) /\
  lock_of s a = Some (o1, false) /\ lock_of s b = Some (o2, false).

Lemma cross_stuck_step cfg s e s' o1 o2 a b :
  all_disciplined cfg -> Own s -> cross_stuck s o1 o2 a b -> step cfg s e = Some s' -> cross_stuck s' o1 o2 a b.
Proof.
  intros HC HS ([r1 E1] & [r2 E2] & La & Lb) ST.
  pose proof (waiting_blocked _ _ _ _ _ _ _ _ _ _ HC HS E1 Lb ST) as N1.
  pose proof (waiting_blocked _ _ _ _ _ _ _ _ _ _ HC HS E2 La ST) as N2.
  destruct (step_frame _ _ _ _ HC HS ST) as [F1 F2].
  repeat split.
  - exists r1. rewrite F1; auto.
  - exists r2. rewrite F1; auto.
  - apply F2; auto.
  - apply F2; auto.
Qed.

Lemma cross_stuck_run cfg tr : forall s s' o1 o2 a b,
  all_disciplined cfg -> Own s -> cross_stuck s o1 o2 a b -> run cfg s tr = Some s' -> cross_stuck s' o1 o2 a b.
Proof.
  induction tr as [|e t IH]; simpl; intros s s' o1 o2 a b HC HS K R.
  - inv R. auto.
  - destruct (step cfg s e) as [s0|] eqn:E; try discriminate.
    apply (IH s0 s' o1 o2 a b); auto. eapply own_step; eauto. eapply cross_stuck_step; eauto.
Qed.

Definition cross_trace (o1 o2 : opid) (a b : nid) : list ev :=
  [EIssue o1; EReq a o1 0; EAcq a o1 0; EIssue o2; EReq b o2 1; EAcq b o2 1; EReq b o1 2; EReq a o2 3].

Lemma crossing_reaches_stuck cfg s o1 o2 a b :
  all_disciplined cfg -> Own s -> o1 <> o2 -> a <> b ->
  kind_of cfg o1 = KSend a b -> kind_of cfg o2 = KSend b a ->
  op_of s o1 = SIdle -> op_of s o2 = SIdle -> lock_of s a = None -> lock_of s b = None ->
  a < length (locks s) -> b < length (locks s) ->
  exists s', run cfg s (cross_trace o1 o2 a b) = Some s' /\ cross_stuck s' o1 o2 a b.
Proof.
  intros HC HS No Nab K1 K2 E1 E2 La Lb Ra Rb.
  assert (R1 : o1 < length (ops s)) by (apply op_of_range; congruence).
  assert (R2 : o2 < length (ops s)) by (apply op_of_range; congruence).
  pose proof (own_orph _ HS) as Horph.
  (* o1: issue, request a, granted a *)
  set (s1 := set_op s o1 (SRun [] (prog_of (kind_of cfg o1)) None)).
  assert (S1 : step cfg s (EIssue o1) = Some s1) by (apply step_issue; auto; rewrite K1; reflexivity).
  assert (X1 : op_of s1 o1 = SRun [] [AReq a; AAcq a; AReq b; AAcq b; ARel b; ARel a] None).
  { unfold s1. rewrite op_set_eq by auto. rewrite K1. reflexivity. }
  set (s2 := set_op s1 o1 (SRun [] [AAcq a; AReq b; AAcq b; ARel b; ARel a] (Some 0))).
  assert (S2 : step cfg s1 (EReq a o1 0) = Some s2) by (apply step_req; auto).
  assert (L1 : length (ops s1) = length (ops s)) by (unfold s1; simpl; apply upd_length).
  assert (X2 : op_of s2 o1 = SRun [] [AAcq a; AReq b; AAcq b; ARel b; ARel a] (Some 0)) by (unfold s2; apply op_set_eq; lia).
  set (s3 := set_lock (set_op s2 o1 (SRun [a] [AReq b; AAcq b; ARel b; ARel a] None)) a (Some (o1, false))).
  assert (S3 : step cfg s2 (EAcq a o1 0) = Some s3) by (apply step_acq; auto).
  assert (L2 : length (ops s2) = length (ops s)) by (unfold s2; simpl; rewrite upd_length; auto).
  assert (L3 : length (ops s3) = length (ops s)) by (unfold s3; simpl; rewrite upd_length; auto).
  assert (X3 : op_of s3 o1 = SRun [a] [AReq b; AAcq b; ARel b; ARel a] None).
  { unfold s3. rewrite op_set_lock. apply op_set_eq; lia. }
  assert (Y3 : op_of s3 o2 = SIdle).
  { unfold s3. rewrite op_set_lock. rewrite op_set_neq by auto. unfold s2. rewrite op_set_neq by auto.
    unfold s1. rewrite op_set_neq by auto. auto. }
  (* o2: issue, request b, granted b *)
  set (s4 := set_op s3 o2 (SRun [] (prog_of (kind_of cfg o2)) None)).
  assert (S4 : step cfg s3 (EIssue o2) = Some s4) by (apply step_issue; auto; rewrite K2; reflexivity).
  assert (X4 : op_of s4 o2 = SRun [] [AReq b; AAcq b; AReq a; AAcq a; ARel a; ARel b] None).
  { unfold s4. rewrite op_set_eq by lia. rewrite K2. reflexivity. }
  set (s5 := set_op s4 o2 (SRun [] [AAcq b; AReq a; AAcq a; ARel a; ARel b] (Some 1))).
  assert (S5 : step cfg s4 (EReq b o2 1) = Some s5) by (apply step_req; auto).
  assert (L4 : length (ops s4) = length (ops s)) by (unfold s4; simpl; rewrite upd_length; auto).
  assert (X5 : op_of s5 o2 = SRun [] [AAcq b; AReq a; AAcq a; ARel a; ARel b] (Some 1)) by (unfold s5; apply op_set_eq; lia).
  assert (Lb5 : lock_of s5 b = None).
  { unfold s5, s4. rewrite !lock_set_op. unfold s3. rewrite lock_set_neq by auto. auto. }
  set (s6 := set_lock (set_op s5 o2 (SRun [b] [AReq a; AAcq a; ARel a; ARel b] None)) b (Some (o2, false))).
  assert (S6 : step cfg s5 (EAcq b o2 1) = Some s6).
  { apply step_acq; auto. unfold s5, s4, s3; simpl. rewrite upd_length. auto. }
  assert (L5 : length (ops s5) = length (ops s)) by (unfold s5; simpl; rewrite upd_length; auto).
  assert (L6 : length (ops s6) = length (ops s)) by (unfold s6; simpl; rewrite upd_length; auto).
  assert (X6 : op_of s6 o1 = SRun [a] [AReq b; AAcq b; ARel b; ARel a] None).
  { unfold s6. rewrite op_set_lock. rewrite op_set_neq by auto. unfold s5. rewrite op_set_neq by auto.
    unfold s4. rewrite op_set_neq by auto. auto. }
  (* both arrivals start polling *)
  set (s7 := set_op s6 o1 (SRun [a] [AAcq b; ARel b; ARel a] (Some 2))).
  assert (S7 : step cfg s6 (EReq b o1 2) = Some s7) by (apply step_req; auto).
  assert (X7 : op_of s7 o2 = SRun [b] [AReq a; AAcq a; ARel a; ARel b] None).
  { unfold s7. rewrite op_set_neq by auto. unfold s6. rewrite op_set_lock. apply op_set_eq; lia. }
  set (s8 := set_op s7 o2 (SRun [b] [AAcq a; ARel a; ARel b] (Some 3))).
  assert (S8 : step cfg s7 (EReq a o2 3) = Some s8) by (apply step_req; auto).
  assert (L7 : length (ops s7) = length (ops s)) by (unfold s7; simpl; rewrite upd_length; auto).
  exists s8. split.
  - unfold cross_trace.
    rewrite run_cons, S1, run_cons, S2, run_cons, S3, run_cons, S4, run_cons, S5, run_cons, S6, run_cons, S7, run_cons, S8.
    reflexivity.
  - repeat split.
    + exists 2. unfold s8. rewrite op_set_neq by auto. unfold s7. apply op_set_eq. lia.
    + exists 3. unfold s8. apply op_set_eq. lia.
    + unfold s8, s7. rewrite !lock_set_op. unfold s6. rewrite lock_set_neq by auto.
      rewrite lock_set_op. unfold s5, s4. rewrite !lock_set_op. unfold s3. apply lock_set_eq. auto.
    + unfold s8, s7. rewrite !lock_set_op. unfold s6. apply lock_set_eq.
      unfold s5, s4, s3; simpl. rewrite upd_length. auto.
Qed.

Theorem crossing_sends_deadlock_lemma cfg nn o1 o2 a b :
  all_disciplined cfg -> o1 <> o2 -> a <> b ->
  kind_of cfg o1 = KSend a b -> kind_of cfg o2 = KSend b a ->
  o1 < length cfg -> o2 < length cfg -> a < nn -> b < nn ->
  exists tr s, run cfg (init nn cfg) tr = Some s /\
    forall tr' s', run cfg s tr' = Some s' ->
      done s' o1 = false /\ done s' o2 = false /\ lock_of s' a = Some (o1, false) /\ lock_of s' b = Some (o2, false).
Proof.
  intros HC No Nab K1 K2 R1 R2 Ra Rb.
  destruct (crossing_reaches_stuck cfg (init nn cfg) o1 o2 a b) as (s & R & St); auto.
  - apply own_init.
  - apply op_of_init_idle; auto.
  - apply op_of_init_idle; auto.
  - apply lock_of_init.
  - apply lock_of_init.
  - unfold init; simpl. rewrite repeat_length. auto.
  - unfold init; simpl. rewrite repeat_length. auto.
  - exists (cross_trace o1 o2 a b), s. split; auto.
    intros tr' s' R'.
    assert (Own s) by (eapply own_run; eauto; apply own_init).
    destruct (cross_stuck_run cfg tr' s s' o1 o2 a b HC H St R') as ([r1 E1] & [r2 E2] & La & Lb).
    unfold done. rewrite E1, E2. auto.
Qed.

(* ---- the general form: a set of operations each of which polls for a lock held by a member of the set never makes progress.
   A member is a triple (o, n, o'): operation o polls the lock of node n, which is held by operation o'. ---- *)
Definition knot (s : st) (B : list (opid * nid * opid)) : Prop :=
  forall o n o', In (o, n, o') B ->
    (exists held p r, op_of s o = SRun held (AAcq n :: p) (Some r)) /\
    lock_of s n = Some (o', false) /\
    (exists n' o'', In (o', n', o'') B).

Lemma knot_step cfg s e s' B :
  all_disciplined cfg -> Own s -> knot s B -> step cfg s e = Some s' -> knot s' B.
Proof.
  intros HC HS K ST.
  assert (NB : forall o n o', In (o, n, o') B -> ev_op e <> o).
  { intros o n o' Hin. destruct (K _ _ _ Hin) as ((held & p & r & Eo) & El & _).
    eapply (waiting_blocked cfg s e s' o); eauto. }
  destruct (step_frame _ _ _ _ HC HS ST) as [F1 F2].
  intros o n o' Hin. destruct (K _ _ _ Hin) as ((held & p & r & Eo) & El & (n' & o'' & Hin')).
  split; [|split].
  - exists held, p, r. rewrite F1; [exact Eo|]. intro X. symmetry in X. exact (NB _ _ _ Hin X).
  - apply F2; [|exact El]. intro X. symmetry in X. exact (NB _ _ _ Hin' X).
  - eauto.
Qed.

Theorem knot_is_deadlock cfg tr : forall s s' B,
  all_disciplined cfg -> Own s -> knot s B -> run cfg s tr = Some s' ->
  forall o n o', In (o, n, o') B -> done s' o = false /\ lock_of s' n = Some (o', false).
Proof.
  induction tr as [|e t IH]; simpl; intros s s' B HC HS K R.
  - inv R. intros o n o' Hin. destruct (K _ _ _ Hin) as ((held & p & r & Eo) & El & _).
    unfold done. rewrite Eo. auto.
  - destruct (step cfg s e) as [s0|] eqn:E; try discriminate.
    apply (IH s0 s' B); auto. eapply own_step; eauto. eapply knot_step; eauto.
Qed.

(* cyclic sends 0 -> 1 -> 2 -> 0 *)
Definition cfg_cycle : list okind := [KSend 0 1; KSend 1 2; KSend 2 0].
Definition cycle_trace : list ev :=
  [EIssue 0; EReq 0 0 1; EAcq 0 0 1; EIssue 1; EReq 1 1 2; EAcq 1 1 2; EIssue 2; EReq 2 2 3; EAcq 2 2 3;
   EReq 1 0 4; EReq 2 1 5; EReq 0 2 6].

Theorem cyclic_sends_deadlock_lemma :
  exists s, run cfg_cycle (init 3 cfg_cycle) cycle_trace = Some s /\
    forall tr' s', run cfg_cycle s tr' = Some s' ->
      done s' 0 = false /\ done s' 1 = false /\ done s' 2 = false /\
      lock_of s' 0 = Some (0, false) /\ lock_of s' 1 = Some (1, false) /\ lock_of s' 2 = Some (2, false).
Proof.
  destruct (run cfg_cycle (init 3 cfg_cycle) cycle_trace) as [s|] eqn:R; [|vm_compute in R; discriminate].
  exists s. split; auto.
  assert (HC : all_disciplined cfg_cycle) by reflexivity.
  assert (HS : Own s) by (eapply own_run; eauto; apply own_init).
  assert (E : s = mk [Some (0, false); Some (1, false); Some (2, false)]
                     [SRun [0] [AAcq 1; ARel 1; ARel 0] (Some 4); SRun [1] [AAcq 2; ARel 2; ARel 1] (Some 5);
                      SRun [2] [AAcq 0; ARel 0; ARel 2] (Some 6)] []) by (vm_compute in R; inv R; reflexivity).
  assert (K : knot s [(0, 1, 1); (1, 2, 2); (2, 0, 0)]).
  { subst s. intros o n o' [X|[X|[X|[]]]]; inv X; (split; [do 3 eexists; reflexivity|split; [reflexivity|]]).
    - exists 2, 2. simpl; auto.
    - exists 0, 0. simpl; auto.
    - exists 1, 1. simpl; auto. }
  intros tr' s' R'.
  pose proof (knot_is_deadlock cfg_cycle tr' s s' _ HC HS K R') as D.
  destruct (D 0 1 1) as [D0 L1]; [simpl; auto|].
  destruct (D 1 2 2) as [D1 L2]; [simpl; auto|].
  destruct (D 2 0 0) as [D2 L0]; [simpl; auto|].
  auto 10.
Qed.
