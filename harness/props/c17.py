"""C17 — generated topologies are the graphs their names promise.
   obligations   : Properties/C17.v (complete / ring / path for every n, relabelling, edge addition, range check)
   correspondence: construct_topology_config on node lists of 2..12 (thorough: ..16) names; complete/ring/path compared exactly
                   (key order and neighbour order) with Model G; random_tree / random_connected_k with the tree produced by
                   networkx and the random.choice sequence recorded and handed to the model (result compared as a graph)
   oracle        : the five predicates evaluated in plain Python with its own BFS on the returned dictionary"""
import copy
import json
import random as pyrandom

import common

POOL = ["Alice", "Bob", "Charlie", "David", "Eve", "Faythe", "Grace", "Heidi", "Ivan", "Judy", "Mallory", "Niaj", "Olivia", "Peggy",
        "Rupert", "Sybil", "Trent", "Uma", "Victor", "Walter", "n0", "n1", "n_2", "x",
        # names that contain other names (numbered nodes from 10 up, nicknames): name comparison must be equality, never containment
        "Alice2", "Bobby", "n10", "n11", "n", "node1", "node10", "A", "Al", "xx", "1", "10", "Eve2", "Ivanka"]


# ---- the property, directly --------------------------------------------------------------------------------------
def judge(nodes, adj, edges):
    """None if adj is a symmetric simple connected graph over exactly `nodes` with `edges` edges, else a reason"""
    if not isinstance(adj, dict):
        return "not a dictionary: %r" % (adj,)
    if set(adj) != set(nodes) or len(adj) != len(nodes):
        return "vertex set %r is not the node list %r" % (sorted(adj), sorted(nodes))
    for a, l in adj.items():
        if len(set(l)) != len(l):
            return "neighbour list of %s has duplicates: %r" % (a, l)
        if a in l:
            return "self loop at %s" % a
        for b in l:
            if b not in adj:
                return "neighbour %s of %s is not a node" % (b, a)
            if a not in adj[b]:
                return "edge %s-%s is not symmetric" % (a, b)
    seen, todo = {nodes[0]}, [nodes[0]]
    while todo:
        a = todo.pop()
        for b in adj[a]:
            if b not in seen:
                seen.add(b)
                todo.append(b)
    if len(seen) != len(nodes):
        return "not connected: %r unreachable from %s" % (sorted(set(nodes) - seen), nodes[0])
    e2 = sum(len(l) for l in adj.values())
    if e2 != 2 * edges:
        return "%s edges instead of %d" % (e2 / 2, edges)
    return None


# ---- running the implementation with the library tree and the random choices recorded ------------------------------
class Recorder:
    def __init__(self, seed):
        self.tree = None
        self.choices = []
        self.seed = seed

    def run(self, topology, nodes):
        import networkx as nx
        import simulaqron.network as net
        saved = {}
        rec = self

        def wrap(orig):
            def f(n, *a, **k):
                g = orig(n, *a, **k)
                rec.tree = {i: list(g.adj[i]) for i in g.nodes}
                return g
            return f
        for attr in ("random_tree", "random_labeled_tree", "random_unlabeled_tree"):
            if hasattr(nx, attr):
                saved[attr] = getattr(nx, attr)
                setattr(nx, attr, wrap(saved[attr]))

        class R(pyrandom.Random):
            def choice(self, seq):
                c = super().choice(seq)
                rec.choices.append(tuple(c))
                return c
        old_random = net.random
        net.random = R(self.seed)
        pyrandom.seed(self.seed)               # networkx draws from the global generator when seed=None
        try:
            return net.construct_topology_config(topology, list(nodes))
        finally:
            net.random = old_random
            for attr, o in saved.items():
                setattr(nx, attr, o)


class _Code(dict):
    """coding of node names as numbers; a name that is not one of the case's nodes (a vertex the implementation invented or kept from an
    earlier call) gets a number outside the coding, so that the Coq comparison fails instead of the printer"""
    def __missing__(self, k):
        return 900 + (sum(map(ord, str(k))) % 90)


def cg(adj, code):
    code = _Code(code)
    return "[" + "; ".join("(%d, [%s])" % (code[a], "; ".join("%d" % code[b] for b in l)) for a, l in adj.items()) + "]"


def cnl(l):
    return "[" + "; ".join("%d" % x for x in l) + "]"


HEADER = common.CASE_HEADER + "From SQ Require Import Base.ListUtil Graph.Model Graph.Cases.\n"


def run_cases(ctx, cases, name, shard=150):
    shards = [cases[i:i + shard] for i in range(0, len(cases), shard)]
    texts = [HEADER + "Definition cases : list gcase := [\n" + ";\n".join(c[0] for c in sh) + "\n].\nEval vm_compute in failing_cases cases.\n"
             for sh in shards]
    failing, okall = [], True
    for sh, (ok, out) in zip(shards, common.coq_eval_many(texts)):
        lists = common.parse_nat_lists(out) if ok else []
        if not ok or len(lists) != 1:
            ctx.obligation("correspondence %s evaluates in Coq" % name, False, out)
            okall = False
            continue
        failing += [sh[i][1] for i in lists[0]]
    ctx.obligation("correspondence %s: model = implementation on %d cases" % (name, len(cases)), okall and not failing,
                   "first disagreement: %s" % json.dumps(failing[:1], default=str)[:1200])
    return failing


def expected_edges(kind, n, k=None):
    return {"complete": n * (n - 1) // 2, "ring": n, "path": n - 1, "random_tree": n - 1}.get(kind, k)


def run(ctx):
    rng = ctx.rng
    thorough = ctx.tier == "thorough"
    ctx.trusted += ["networkx (random tree generator, non_edges, add_edge, relabel_nodes, to_dict_of_lists): library behaviour; every tree it "
                    "returned is checked to be a tree (in Coq and by the Python oracle) before it is handed to the model",
                    "Python random.choice: its picks are recorded and replayed to the model; the theorem covers every admissible pick sequence",
                    "node names are coded as distinct numbers (random injective coding per case)"]
    ctx.rule = ("node lists of 2..%d distinct names (every size, several name orders); complete/ring/path once per list, random_tree and "
                "random_connected_k for several seeds and k across [n-1, n(n-1)/2] incl. both ends, out-of-range and malformed k, unknown "
                "names, None and a ready-made dictionary; distinct = distinct (topology, node list, seed); a case is non-trivial if n >= 3"
                % (16 if thorough else 12))
    common.check_properties_file(ctx)
    import simulaqron.network as net

    cases, bad = [], []            # bad: (key, text, replay)

    def oracle(kind, nodes, topo, adj, edges, seed=None):
        why = judge(nodes, adj, edges)
        ctx.count("oracle_evaluations")
        if why is not None:
            bad.append(("oracle:" + kind, "%s over %d nodes: %s" % (topo, len(nodes), why),
                        {"topology": topo, "nodes": nodes, "seed": seed, "returned": adj}))

    sizes = list(range(2, (16 if thorough else 12) + 1))
    reps = 8 if thorough else 4
    for n in sizes:
        for rep in range(reps):
            nodes = rng.sample(POOL, n)
            code = dict(zip(nodes, rng.sample(range(0, 80), n)))
            cn = cnl([code[x] for x in nodes])
            for kind, ctor in (("complete", "GComplete"), ("ring", "GRing"), ("path", "GPath")):
                if kind == "ring" and n < 3:
                    continue
                adj = net.construct_topology_config(kind, list(nodes))
                cases.append(("%s %s %s" % (ctor, cn, cg(adj, code)), {"topology": kind, "nodes": nodes, "returned": adj}))
                ctx.case((kind, tuple(nodes)), nontrivial=n >= 3)
                ctx.count("topology_" + kind)
                oracle(kind, nodes, kind, adj, expected_edges(kind, n))
            # random generators
            maxe = n * (n - 1) // 2
            ks = sorted({n - 1, maxe, min(maxe, n), rng.randint(n - 1, maxe), rng.randint(n - 1, maxe)})
            jobs = [("random_tree", None)] * (3 if thorough else 2) + [("random_connected_%d" % k, k) for k in ks]
            jobs += [("random_connected_%d" % k, k) for k in ([n - 2] if n >= 2 else []) + [maxe + 1, maxe + rng.randint(2, 9)]]
            for topo, k in jobs:
                seed = rng.randrange(1 << 30)
                rec = Recorder(seed)
                inrange = k is None or (n - 1 <= k <= maxe)
                try:
                    adj = rec.run(topo, nodes)
                    err = None
                except ValueError as e:
                    adj, err = None, e
                except Exception as e:           # noqa: BLE001
                    bad.append(("crash:" + topo.rstrip("0123456789"), "%s over %d nodes raised %r" % (topo, n, e),
                                {"topology": topo, "nodes": nodes, "seed": seed}))
                    ctx.count("crashes")
                    continue
                ctx.count("topology_random_tree" if k is None else ("topology_random_connected" if inrange else "range_rejections_expected"))
                if not inrange:
                    if err is None:
                        bad.append(("oracle:range", "%s over %d nodes accepted although k is outside [n-1, n(n-1)/2]" % (topo, n),
                                    {"topology": topo, "nodes": nodes, "seed": seed, "returned": adj}))
                    cases.append(("GConn %s %d [] [] %s" % (cn, k, "None" if err is not None else "(Some %s)" % cg(adj, code)),
                                  {"topology": topo, "nodes": nodes, "seed": seed, "raised": repr(err)}))
                    ctx.case((topo, tuple(nodes), seed), nontrivial=n >= 3)
                    continue
                if err is not None:
                    bad.append(("oracle:range", "%s over %d nodes rejected although k is admissible: %r" % (topo, n, err),
                                {"topology": topo, "nodes": nodes, "seed": seed}))
                    continue
                if rec.tree is None:
                    ctx.obligation("the tree generator used by network.py is one the harness records", False, topo)
                    continue
                ident = {i: i for i in range(n)}
                tree = cg(rec.tree, ident)
                why = judge(list(range(n)), rec.tree, n - 1)
                if why is not None:
                    ctx.obligation("networkx returned a tree on 0..n-1", False, "%s: %r" % (why, rec.tree))
                    continue
                d = {"topology": topo, "nodes": nodes, "seed": seed, "tree": rec.tree, "choices": rec.choices, "returned": adj}
                if k is None:
                    cases.append(("GTree %s %s %s" % (cn, tree, cg(adj, code)), d))
                else:
                    cs = "[" + "; ".join("(%d, %d)" % c for c in rec.choices) + "]"
                    cases.append(("GConn %s %d %s %s (Some %s)" % (cn, k, tree, cs, cg(adj, code)), d))
                    ctx.count("recorded_choices", len(rec.choices))
                ctx.case((topo, tuple(nodes), seed), nontrivial=n >= 3)
                oracle("random_tree" if k is None else "random_connected", nodes, topo, adj, expected_edges("random_tree" if k is None else None, n, k), seed)
    # malformed / other inputs of construct_topology_config
    nodes = rng.sample(POOL, 5)
    for topo in ("random_connected_x", "random_connected", "random_connected_", "star", "", "random_connected_-3", "random_connected_4.0"):
        try:
            r = net.construct_topology_config(topo, list(nodes))
            bad.append(("oracle:malformed", "topology name %r accepted, returned %r" % (topo, r), {"topology": topo, "nodes": nodes}))
        except ValueError:
            ctx.count("malformed_rejected")
        except Exception as e:               # noqa: BLE001
            bad.append(("crash:malformed", "topology name %r raised %r" % (topo, e), {"topology": topo, "nodes": nodes}))
    # decorated edge counts: the count is what Python's int() reads from the WHOLE suffix (sign, spaces and underscores as int() treats them), never a
    # digit string fished out of it; anything int() rejects or that lies outside [n-1, n(n-1)/2] must be refused
    for n in (4, 5, 7):
        nd = rng.sample(POOL, n)
        maxe = n * (n - 1) // 2
        good = sorted({n - 1, n, maxe - 1, maxe})
        sufs = []
        for k in good:
            sufs += ["-%d" % k, "+%d" % k, " %d" % k, "%d " % k, "2.%d" % k, "%d.0" % k, "x%d" % k, "%dx" % k, "0x%d" % k, "1e%d" % k, "--%d" % k,
                     "%d_" % k, "_%d" % k, "0%d" % k, "%d%d" % (k, k)]
        for suf in sufs:
            topo = "random_connected_" + suf
            try:
                want = int(suf)
                want = want if n - 1 <= want <= maxe else None
            except ValueError:
                want = None
            ctx.count("decorated_edge_counts")
            try:
                r = Recorder(rng.randrange(10 ** 6)).run(topo, nd)
            except ValueError:
                if want is not None:
                    bad.append(("oracle:malformed", "topology name %r refused although int(%r) = %d is an admissible edge count for %d nodes" % (topo, suf, want, n),
                                {"topology": topo, "nodes": nd}))
                continue
            except Exception as e:               # noqa: BLE001
                bad.append(("crash:malformed", "topology name %r raised %r" % (topo, e), {"topology": topo, "nodes": nd}))
                continue
            edges = sum(len(v) for v in r.values()) // 2
            if want is None:
                bad.append(("oracle:malformed", "topology name %r accepted (returned a graph with %d edges over %d nodes) although %r is not an admissible edge count"
                            % (topo, edges, n, suf), {"topology": topo, "nodes": nd, "returned": r}))
            elif judge(nd, r, want) is not None:
                bad.append(("oracle:malformed", "topology name %r: %s" % (topo, judge(nd, r, want)), {"topology": topo, "nodes": nd, "returned": r}))
    # the generators themselves (public module functions) must enforce the edge range too, not only the name parser
    for n in range(2, 9):
        nd = rng.sample(POOL, n) if len(POOL) >= n else list(range(n))
        maxe = n * (n - 1) // 2
        for k in sorted({0, 1, n - 2, maxe + 1, maxe + 3} - set(range(n - 1, maxe + 1))):
            if k < 0:
                continue
            try:
                r = net.get_random_connected(list(nd), k)
                bad.append(("oracle:range", "get_random_connected(%d nodes, %d edges) accepted although k is outside [n-1, n(n-1)/2]" % (n, k),
                            {"topology": "get_random_connected", "nodes": nd, "k": k, "returned": r}))
            except ValueError:
                ctx.count("direct_range_rejections")
            except Exception as e:           # noqa: BLE001
                bad.append(("crash:range", "get_random_connected(%d nodes, %d edges) raised %r" % (n, k, e), {"nodes": nd, "k": k}))
    given = {"a": ["b"], "b": ["a"]}
    if net.construct_topology_config(None, nodes) is not None or net.construct_topology_config(copy.deepcopy(given), nodes) != given:
        bad.append(("oracle:passthrough", "None / ready-made dictionary not passed through", {"nodes": nodes}))

    for c in cases[:2] + cases[-1:]:
        ctx.sample({k: v for k, v in c[1].items() if k != "returned"})
    run_cases(ctx, cases, "generated topologies")
    ctx.count("oracle_failures", len(bad))
    ctx.obligation("oracle: every returned dictionary is the promised graph (symmetric, simple, over the nodes, connected, edge count); "
                   "out-of-range k rejected", not bad, "; ".join(sorted({b[1] for b in bad}))[:900])
    seen = set()
    for key, text, rp in sorted(bad, key=lambda b: (b[0], len(b[2].get("nodes", [])))):
        if key in seen:
            continue
        seen.add(key)
        ctx.report(key, text, rp, True)
