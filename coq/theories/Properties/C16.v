(* C16 — network configuration stays well-formed and node ids are a consistent bijection.
   Only statements, each closed by `exact`, each followed by Print Assumptions.  Proofs: Conf/*.v.
   `os` is the operating system's answer to _check_socket_is_free: an arbitrary function of (call index, port). *)
From Coq Require Import List Bool Arith NArith String Permutation Sorted.
From SQ Require Import Conf.Model Conf.Assoc Conf.Sort Conf.Invariant Conf.Ids Conf.Gone.
Import ListNotations.
Open Scope string_scope.
Open Scope list_scope.

(* after ANY sequence of edits (refused ones included), whatever the OS answers: no two endpoints of the
   configuration share a (host, port), all of them are reserved, and the same holds for the file on disk *)
Theorem C16_endpoints_nodup : forall (os : nat -> N -> bool) (ops : list op),
  let s := run os init ops in
  NoDup (endpoints (cfg s)) /\ incl (endpoints (cfg s)) (used s) /\
  (forall f, file s = Some f -> NoDup (endpoints f)).
Proof. exact endpoints_nodup_all. Qed.
Print Assumptions C16_endpoints_nodup.

(* a removed node is gone from the node list, the topology keys and every neighbour list *)
Theorem C16_removed_gone : forall (os : nat -> N -> bool) (ops : list op) (net : option name) (x : name),
  absent (cfg (run os init (ops ++ [RemoveNode net x]))) (defnet net) x.
Proof. exact removed_gone_all. Qed.
Print Assumptions C16_removed_gone.

(* ... and stays gone until an edit names it again *)
Theorem C16_removed_stays_gone : forall (os : nat -> N -> bool) (ops later : list op) (net : option name) (x : name),
  forallb (fun o => negb (mentions (defnet net) x o)) later = true ->
  absent (cfg (run os init (ops ++ [RemoveNode net x] ++ later))) (defnet net) x.
Proof. exact removed_stays_gone_all. Qed.
Print Assumptions C16_removed_stays_gone.

(* writing then reading (a fresh constructor, or read_from_file on the same object) reproduces the configuration *)
Theorem C16_write_read_id : forall (os : nat -> N -> bool) (ops : list op),
  let s := run os init ops in
  file (run os s [Write]) = Some (cfg s) /\
  cfg (run os s [Write; Load]) = cfg s /\
  cfg (run os s [Write; Read]) = cfg s.
Proof. exact write_read_all. Qed.
Print Assumptions C16_write_read_id.

(* name -> id and id -> name are mutually inverse on every file an edit sequence can produce *)
Theorem C16_id_bijection : forall (os : nat -> N -> bool) (ops : list op),
  let s := run os init ops in
  forall f, (file s = Some f \/ f = cfg s) ->
  forall nn x i, node_id f nn x = Some i <-> name_of_id f nn i = Some x.
Proof. exact id_bijection_all. Qed.
Print Assumptions C16_id_bijection.

(* the ids of a network with n nodes are exactly 0..n-1, every node has one *)
Theorem C16_id_total : forall f nn ks, node_names f nn = Some ks ->
  (forall x, In x ks <-> exists i, node_id f nn x = Some i) /\
  (forall i, i < List.length ks <-> exists x, name_of_id f nn i = Some x).
Proof. exact id_total. Qed.
Print Assumptions C16_id_total.

(* the id is the index in THE sorted list of the names (the sort is verified: sorted, a permutation, unique) *)
Theorem C16_sorted_is_sorted : forall l, Sorted sle (isort l) /\ Permutation l (isort l).
Proof. exact isort_is_sorted. Qed.
Print Assumptions C16_sorted_is_sorted.
Theorem C16_sorted_unique : forall l1 l2, Sorted sle l1 -> Sorted sle l2 -> Permutation l1 l2 -> l1 = l2.
Proof. exact sorted_perm_eq. Qed.
Print Assumptions C16_sorted_unique.

(* every participant reading the same file gives the same answers: the lookups are functions of the file content,
   and even only of the SET of node names (json object order and endpoint role do not matter) *)
Theorem C16_id_reader_independent : forall f1 f2 n1 n2 ks1 ks2,
  node_names f1 n1 = Some ks1 -> node_names f2 n2 = Some ks2 -> Permutation ks1 ks2 ->
  (forall x, node_id f1 n1 x = node_id f2 n2 x) /\ (forall i, name_of_id f1 n1 i = name_of_id f2 n2 i).
Proof. exact id_reader_independent. Qed.
Print Assumptions C16_id_reader_independent.

(* non-vacuity: a reachable state with two networks, a restricted topology, a refused edit, a removal and a file *)
Theorem C16_example_reachable :
  let os := fun (k : nat) (p : N) => negb (N.eqb p 8001) in
  let s := run os init [Reset; AddNode (Some "netB") "Zed" (Some "10.1.2.3") None (Some "10.1.2.3") (Some 8000%N) None (Some 8000%N) (Some ["Bob"]);
                        AddNode (Some "netB") "Zed" (Some "10.1.2.3") None (Some "10.1.2.3") (Some 8005%N) None (Some 9001%N) (Some ["Bob"]);
                        AddNode None "Alice" None None None (Some 8000%N) None None None;
                        AddNode None "Bob" None None None None None None (Some ["Alice"; "Eve"]);
                        RemoveNode None "Eve"; Write; RemoveNetwork (Some "netB")] in
  List.length (endpoints (cfg s)) = 12 /\ List.length (used s) = 23 /\
  node_id (cfg s) "default" "David" = Some 3 /\ name_of_id (cfg s) "default" 3 = Some "David" /\
  option_map (fun f => List.length (endpoints f)) (file s) = Some 15 /\
  option_map topology (aget (cfg s) "default") =
    Some (Some [("Alice", ["Bob"; "Charlie"; "David"]); ("Bob", ["Alice"]); ("Charlie", ["Alice"; "Bob"; "David"]);
                ("David", ["Alice"; "Bob"; "Charlie"])]).
Proof. exact example_reachable. Qed.
Print Assumptions C16_example_reachable.
