(* C02 — placeholder until the invariant / refinement theorems are added (see below). *)
From Coq Require Import List Bool Arith.
From SQ Require Import Base.ListUtil Net.Model Net.Refusal Net.Capacity Net.Handles.
Import ListNotations.
