(* C01, layer 2: the recursive definition `jgroup` unfolded into the form in which one would state it on paper:
   one element of every factor's group; P restricted to the identities of a factor is that element, position by
   position; P is the identity on all other identities; the phase of P is the sum of the phases. *)
From Coq Require Import List Bool Arith Lia Permutation.
From SQ Require Import Base.ListUtil Stab.Pauli Stab.Kernels Stab.Gates Stab.Tableau Stab.Group Stab.GroupGates
     Stab.LocalZ Net.Model Net.Joint Net.JointOps.
Import ListNotations.

Fixpoint sum_ph (gs : list pstr) : ph :=
  match gs with [] => P0 | g :: t => padd (fst g) (sum_ph t) end.

Definition explicit (fs : list factor) (P : gstr) : Prop :=
  exists gs, Forall2 (fun f g => gen (f_n f) (f_tab f) g) fs gs /\
    fst P = sum_ph gs /\
    (forall f g, In (f, g) (combine fs gs) -> forall p, p < f_n f -> snd P (nth p (f_ids f) 0) = nth p (snd g) PI) /\
    (forall y, ~ In y (all_ids fs) -> snd P y = PI).

Theorem jgroup_explicit fs : fsok fs -> forall P, jgroup fs P <-> explicit fs P.
Proof.
  induction fs as [|f fs IH]; intros OK P.
  - simpl. unfold explicit. split.
    + intros [E1 E2]. exists []. split; [constructor|]. split; [exact E1|]. split; [intros ? ? []|]. intros y _. apply E2.
    + intros (gs & F2 & E1 & _ & E2). inversion F2; subst. split; [exact E1|]. intro y. apply E2. simpl. tauto.
  - destruct (fsok_head _ _ OK) as (ND & L & F & OKR & D). specialize (IH OKR).
    split.
    + intros (g & P' & G & J & [E1 E2]). simpl in E1, E2.
      apply IH in J. destruct J as (gs & F2 & S1 & S2 & S3).
      pose proof (gen_length _ _ _ G) as Lg.
      exists (g :: gs). split; [constructor; auto|]. split; [simpl; rewrite E1, S1; reflexivity|]. split.
      * intros f' g' [HI|HI] p Hp.
        -- inversion HI; subst. rewrite E2. apply over_nth; auto; lia.
        -- rewrite E2.
           assert (Lf : length (f_ids f') = f_n f').
           { apply in_combine_l in HI. destruct OKR as [_ FA]. rewrite Forall_forall in FA. apply (FA f' HI). }
           rewrite over_notin; [apply (S2 f' g' HI p Hp)|].
           intro HD. apply (D _ HD). unfold all_ids. apply in_flat_map. exists f'. split; [apply in_combine_l in HI; auto|].
           apply nth_In. lia.
      * intros y Hy. rewrite E2. simpl in Hy. rewrite in_app_iff in Hy.
        rewrite over_notin by tauto. apply S3. tauto.
    + intros (gs & F2 & S1 & S2 & S3). inversion F2 as [|? g ? gs' G F2']; subst.
      set (P' := (sum_ph gs', fun y => if in_dec Nat.eq_dec y (f_ids f) then PI else snd P y) : gstr).
      pose proof (gen_length _ _ _ G) as Lg.
      exists g, P'. split; auto. split.
      * apply IH. exists gs'. split; auto. split; [reflexivity|]. split.
        -- intros f' g' HI p Hp. unfold P'; simpl.
           assert (Lf : length (f_ids f') = f_n f').
           { apply in_combine_l in HI. destruct OKR as [_ FA]. rewrite Forall_forall in FA. apply (FA f' HI). }
           destruct (in_dec Nat.eq_dec (nth p (f_ids f') 0) (f_ids f)) as [HD|_].
           ++ exfalso. apply (D _ HD). unfold all_ids. apply in_flat_map. exists f'.
              split; [apply in_combine_l in HI; auto|]. apply nth_In. lia.
           ++ apply (S2 f' g'); auto. right; auto.
        -- intros y Hy. unfold P'; simpl. destruct (in_dec Nat.eq_dec y (f_ids f)); auto.
           apply S3. simpl. rewrite in_app_iff. tauto.
      * split; [simpl; exact S1|]. intro y. simpl.
        destruct (in_dec Nat.eq_dec y (f_ids f)) as [Hy|Hy].
        -- destruct (In_nth _ _ 0 Hy) as (p & Hp & <-). rewrite over_nth by (auto; lia).
           apply (S2 f g); [left; auto|lia].
        -- rewrite over_notin by auto. destruct (in_dec Nat.eq_dec y (f_ids f)); [contradiction|reflexivity].
Qed.
