#!/bin/sh
# Re-check every compiled property module and everything it depends on with Coq's independent checker and print the axioms.
# usage: tools/coqchk_all.sh   (after ./check build; takes about a minute)
cd "$(dirname "$0")/../coq" || exit 2
for f in theories/Properties/*.v; do
  timeout 900 coqc -Q theories SQ "$f" > /dev/null 2>&1 || { echo "FAILED to compile $f"; exit 1; }
done
mods=$(ls theories/Properties/*.vo | sed 's#theories/#SQ.#; s#/#.#g; s#\.vo$##')
timeout 3000 coqchk -silent -o -Q theories SQ $mods
