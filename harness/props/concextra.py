"""Concurrent parts of the sequential Model-V properties C02 and C05 (the quantifier of C02 says `whenever no operation is in flight`, that
of C05 `injected at any point of an arbitrary history`): the scheduler harness of C03/C04 (harness/conc.py, real Perspective Broker, seeded
schedules) runs scenarios with concurrent clients; the property's own oracle is evaluated once the network is quiescent.
Runs inside the trigger class of a finding listed for C03/C04 (D4, D5, D6, D23) are not judged here: there the operations themselves
do not complete / are not serializable, which ./check C03 and ./check C04 report."""
import logging

import conc
import net_sync as N
from props import concprop

SKIP = ("crossing sends", "cyclic sends", "send addressed to the issuing node", "the same qubit sent twice", "send racing with a destructive",
        "send racing with gates on the same qubit", "two destructive measurements of one qubit", "merge racing with a send of its target",
        "merge racing with a destructive measurement of its control", "send, merge and measurement through one handle")
DOCUMENTED = ("noQubitError", "quantumError", "virtNetError", "SimUnsupportedError", "ValueError")


def _scenarios(ctx, nrandom):
    fixed = [s for s in concprop.fixed_scenarios() if not s["name"].startswith(SKIP)]
    rnd = [concprop.random_scenario(ctx.rng, 5000 + i) for i in range(nrandom)]
    return fixed + rnd


def run(ctx, pid, judge_run, title, per=None, nrandom=None):
    """judge_run(res, scn, net, a) -> None or (key, text); a = conc.analyse(res, scn), facts read off the lock-event trace"""
    t = ctx.tier == "thorough"
    per = per or (12 if t else 3)
    nrandom = nrandom if nrandom is not None else (60 if t else 12)
    logging.disable(logging.CRITICAL)
    env = N.setup()
    conc.install(env)
    bad = None
    for scn in _scenarios(ctx, nrandom):
        heavy = any(w in scn["name"] for w in ("pulled", "pulling", "crossing directions", "both-remote merge", "free slot", "room for"))
        for _ in range(per * (3 if heavy else 1)):
            seed = ctx.rng.randrange(1 << 30)
            res = conc.run_concurrent(env, scn, seed=seed, p_tick=ctx.rng.choice([0.0, 0.05, 0.3]), p_idle=ctx.rng.choice([0.0, 0.2]))
            ctx.count("concurrent_schedules")
            a = conc.analyse(res, scn)
            hung = [k for k, r in enumerate(res.results) if r[0] == "hang"]
            if concprop.listed_trigger(a) or a["timeouts"] or hung or not res.quiescent:
                ctx.count("concurrent_runs_not_judged_here(listed trigger class / timeout branch / not quiescent)")
            else:
                ctx.count("concurrent_runs_judged_at_quiescence")
                ctx.case(("conc", pid, scn["name"], seed), nontrivial=True)
                v = judge_run(res, scn, res.world.net, a)
                if v is not None and (bad is None or len(res.schedule) < len(bad[2])):
                    bad = (scn, seed, list(res.schedule), v)
            conc.dispose(res)
    logging.disable(logging.NOTSET)
    ctx.obligation("%s (%d concurrent runs judged at quiescence, real PB, seeded schedules)" % (title, ctx.coverage.get("concurrent_runs_judged_at_quiescence", 0)),
                   bad is None, "" if bad is None else "scenario %r seed %d: %s" % (bad[0]["name"], bad[1], bad[3][1]))
    if bad is not None:
        ctx.report("%s:concurrent-%s" % (pid, bad[3][0]), "%s (scenario %r)" % (bad[3][1], bad[0]["name"]),
                   {"scenario": bad[0]["name"], "prefix": bad[0]["prefix"], "ops": bad[0]["ops"], "caps": bad[0]["caps"], "seed": bad[1],
                    "schedule": bad[2]}, found_input=True)


def judge_c02(res, scn, net, a):
    probs = N.object_graph_invariant(net)
    if probs:
        return ("bookkeeping", "after concurrent operations, with nothing in flight: " + "; ".join(probs[:2]))
    return None


def judge_c05(res, scn, net, a):
    """every operation that did not succeed was refused with a documented class; none failed for an undocumented reason (a lock released under it,
    an assertion); no lock is held afterwards"""
    for k, r in enumerate(res.results):
        if r[0] == "err" and r[1] not in DOCUMENTED:
            return ("undocumented-failure", "operation %r failed with %s while another operation was refused / running concurrently; results %r"
                    % (tuple(scn["ops"][k]), r[1], res.results))
    if a["foreign_releases"]:
        return ("foreign-release", "a node lock held by one operation was released by another one (lock-event trace: %r); results %r"
                % (a["foreign_releases"][:2], res.results))
    if res.snap["locks"]:
        return ("lock-held", "locks still held when the network is idle: %r (results %r)" % (res.snap["locks"], res.results))
    return None
