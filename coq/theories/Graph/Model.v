(* Model G — generated topologies (C17).  simulaqron/network.py:204-319
   (construct_topology_config, get_random_tree, get_random_connected).
   Node names are coded as natural numbers (the code treats them as opaque dictionary keys); an adjacency
   dictionary is an association list in insertion order.  Executable definitions only. *)
From Coq Require Import List Bool Arith Lia.
Import ListNotations.

Definition graph := list (nat * list nat).

(* ---- the three deterministic constructions, statement by statement as in construct_topology_config ---- *)
(* adjacency_dct[node] = nodes[:i] + nodes[i + 1:] *)
Definition complete (nodes : list nat) : graph :=
  map (fun i => (nth i nodes 0, firstn i nodes ++ skipn (S i) nodes)) (seq 0 (length nodes)).

(* adjacency_dct[node] = [nodes[(i - 1) % nn], nodes[(i + 1) % nn]]     (Python's % is non-negative: (i-1)%nn = (i+nn-1)%nn) *)
Definition ring (nodes : list nat) : graph :=
  let nn := length nodes in
  map (fun i => (nth i nodes 0, [nth ((i + nn - 1) mod nn) nodes 0; nth ((i + 1) mod nn) nodes 0])) (seq 0 nn).

(* i == 0: [nodes[i + 1]];  i == nn - 1: [nodes[i - 1]];  else as for the ring *)
Definition path (nodes : list nat) : graph :=
  let nn := length nodes in
  map (fun i => (nth i nodes 0,
                 if i =? 0 then [nth (i + 1) nodes 0]
                 else if i =? nn - 1 then [nth (i - 1) nodes 0]
                 else [nth ((i + nn - 1) mod nn) nodes 0; nth ((i + 1) mod nn) nodes 0])) (seq 0 nn).

(* ---- the random generators: the tree on 0..n-1 (networkx) and the choices of random.choice are inputs ---- *)
(* nx.relabel_nodes(G, {i: nodes[i]}) followed by nx.to_dict_of_lists *)
Definition naming (nodes : list nat) : nat -> nat := fun i => nth i nodes 0.
Definition relabel (f : nat -> nat) (g : graph) : graph := map (fun p => (f (fst p), map f (snd p))) g.

(* G.add_edge(u, v) for a non-edge u <> v between existing vertices *)
Definition add_edge (g : graph) (u v : nat) : graph :=
  map (fun p => if fst p =? u then (fst p, snd p ++ [v])
                else if fst p =? v then (fst p, snd p ++ [u]) else p) g.
Definition add_edges (g : graph) (cs : list (nat * nat)) : graph :=
  fold_left (fun g' c => add_edge g' (fst c) (snd c)) cs g.

(* (nr_edges < nn - 1) or (nr_edges > nn * (nn - 1) / 2)  -> ValueError     (integers; no truncated subtraction/division) *)
Definition range_ok (n k : nat) : bool := negb ((k + 1 <? n) || (n * (n - 1) <? 2 * k)).

Definition random_tree (nodes : list nat) (t : graph) : graph := relabel (naming nodes) t.
Definition random_connected (nodes : list nat) (k : nat) (t : graph) (cs : list (nat * nat)) : option graph :=
  let n := length nodes in
  if range_ok n k then Some (relabel (naming nodes) (add_edges t (firstn (k - (n - 1)) cs))) else None.

(* ---- the predicates of the property ---- *)
Definition adj (g : graph) (a b : nat) : Prop := exists l, In (a, l) g /\ In b l.
Definition symmetric (g : graph) : Prop := forall a b, adj g a b -> adj g b a.
Definition simple (g : graph) : Prop :=
  NoDup (map fst g) /\ forall a l, In (a, l) g -> NoDup l /\ ~ In a l.
Definition over (nodes : list nat) (g : graph) : Prop :=
  (forall a, In a (map fst g) <-> In a nodes) /\ length g = length nodes /\ forall a b, adj g a b -> In b nodes.
Inductive reach (g : graph) : nat -> nat -> Prop :=
| reach_refl a : reach g a a
| reach_step a b c : reach g a b -> adj g b c -> reach g a c.
Definition connected (g : graph) : Prop :=
  forall a b, In a (map fst g) -> In b (map fst g) -> reach g a b.
Definition degsum (g : graph) : nat := list_sum (map (fun p => length (snd p)) g).

(* all clauses at once: symmetric simple graph over exactly `nodes`, connected, with k edges *)
Definition good (nodes : list nat) (g : graph) (k : nat) : Prop :=
  over nodes g /\ symmetric g /\ simple g /\ connected g /\ degsum g = 2 * k.

(* a choice sequence as get_random_connected can make it: every choice is a non-edge of the graph built so far *)
Fixpoint valid_choices (g : graph) (cs : list (nat * nat)) : Prop :=
  match cs with
  | [] => True
  | (u, v) :: t => u <> v /\ In u (map fst g) /\ In v (map fst g) /\ ~ adj g u v /\ ~ adj g v u
                   /\ valid_choices (add_edge g u v) t
  end.

(* ---- boolean evaluation of the same predicates, used on concrete cases only (harness) ---- *)
Definition nmem (x : nat) (l : list nat) : bool := existsb (Nat.eqb x) l.
Definition nbrs (g : graph) (a : nat) : list nat :=
  match find (fun p => fst p =? a) g with Some p => snd p | None => [] end.
Fixpoint nodup_b (l : list nat) : bool :=
  match l with [] => true | h :: t => negb (nmem h t) && nodup_b t end.
Definition symmetric_b (g : graph) : bool :=
  forallb (fun p => forallb (fun b => nmem (fst p) (nbrs g b)) (snd p)) g.
Definition simple_b (g : graph) : bool :=
  nodup_b (map fst g) && forallb (fun p => nodup_b (snd p) && negb (nmem (fst p) (snd p))) g.
Definition over_b (nodes : list nat) (g : graph) : bool :=
  forallb (fun a => nmem a nodes) (map fst g) && forallb (fun a => nmem a (map fst g)) nodes
  && (length g =? length nodes) && forallb (fun p => forallb (fun b => nmem b nodes) (snd p)) g.
Fixpoint bfs (g : graph) (fuel : nat) (seen : list nat) : list nat :=
  match fuel with
  | 0 => seen
  | S f => bfs g f (fold_left (fun s a => fold_left (fun s' b => if nmem b s' then s' else s' ++ [b]) (nbrs g a) s) seen seen)
  end.
Definition connected_b (g : graph) : bool :=
  match g with
  | [] => true
  | p :: _ => let r := bfs g (length g) [fst p] in forallb (fun a => nmem a r) (map fst g)
  end.
Definition good_b (nodes : list nat) (g : graph) (k : nat) : bool :=
  over_b nodes g && symmetric_b g && simple_b g && connected_b g && (degsum g =? 2 * k).
Fixpoint valid_choices_b (g : graph) (cs : list (nat * nat)) : bool :=
  match cs with
  | [] => true
  | (u, v) :: t => negb (u =? v) && nmem u (map fst g) && nmem v (map fst g)
                   && negb (nmem v (nbrs g u)) && negb (nmem u (nbrs g v)) && valid_choices_b (add_edge g u v) t
  end.

(* equality of adjacency dictionaries up to the order of keys and of neighbours *)
Fixpoint ninsert (x : nat) (l : list nat) : list nat :=
  match l with [] => [x] | h :: t => if x <=? h then x :: l else h :: ninsert x t end.
Definition nsort (l : list nat) : list nat := fold_right ninsert [] l.
Definition list_nat_eqb (a b : list nat) : bool :=
  (length a =? length b) && forallb (fun p => fst p =? snd p) (combine a b).
Definition same_graph (g1 g2 : graph) : bool :=
  list_nat_eqb (nsort (map fst g1)) (nsort (map fst g2))
  && nodup_b (map fst g1)
  && forallb (fun p => list_nat_eqb (nsort (snd p)) (nsort (nbrs g2 (fst p)))) g1.
Definition graph_eqb (g1 g2 : graph) : bool :=
  (length g1 =? length g2)
  && forallb (fun pq => (fst (fst pq) =? fst (snd pq)) && list_nat_eqb (snd (fst pq)) (snd (snd pq))) (combine g1 g2).
