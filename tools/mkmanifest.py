#!/usr/bin/env python3
"""Regenerates MANIFEST.json from the table below (single source of truth for what is claimed)."""
import json
import os

VERIF = os.path.dirname(os.path.dirname(os.path.abspath(__file__)))
ALL = ["C%02d" % i for i in range(1, 21)]

CLAIMED = {
    "C13": dict(
        text="Coq theorems for all tableau sizes: each of the 8 gate kernels is the Clifford conjugation (sign included) of the Pauli string a row denotes; "
             "conjugation tables proved against Gaussian-integer matrices; the kernels are regenerated from stabilizer_states.py on every run and proved equal to the model; "
             "exact model/implementation correspondence for gates, tensor, add_qubit, Gaussian elimination, ==, contains.",
        design="4/C13",
        note="Trusted: Coq kernel+vm_compute; ast translator for the gate kernels; numpy semantics of masks/views; group<->state link checked numerically (oracle), not proved.",
        technique="Coq proof (per-row conjugation theorems, all n) + source-to-Coq translator with generated equality lemmas + vm_compute correspondence"),
    "C01": dict(
        text="PARTIAL proof (placement layer): Coq theorems over Model V for every reachable state and all seven merge cases: each native operation issues its engine call at exactly the register position whose recorded identity is the physical qubit the handle denotes (control/target order preserved), merges preserve the bookkeeping invariant and the identity records, sending hands over the same physical qubit, identities are never duplicated. Not proved: the composition with the engine contract (C15) and the stabilizer theorems (C13/C14) into 'joint state = ideal state'; that equation is checked on every run by an independent state-vector oracle after EVERY operation of every program (direct calls and real PB), together with exact model/implementation dump equality.",
        design="4/C01",
        note="Trusted: Coq kernel; in-process harness; Hilbert space not formalised (stabilizer group <-> state is textbook, checked numerically by the oracle). Theorem names carry _partial.",
        technique="Coq proof (placement refinement with ghost qubit identities, induction over operation lists) + vm_compute correspondence + state-vector oracle"),
    "C02": dict(
        text="Coq theorem over Model V: an explicit inductive invariant (per node: id uniqueness, register table consistency, positions of a register's simulated qubits injective/bounded/as many as the register size; network-wide: backing map held qubit -> simulated qubit total, injective and onto, ghost identities aligned) holds in every state reachable by ANY operation list on ANY network (failed operations included); corollaries: backed by exactly one existing simulated qubit, no sharing/no orphan, positions are a permutation of 0..k-1, ids unique, exact population deltas per operation. Tie: dump equality after every operation + an id()-based walk of the real object graph evaluating the same invariant.",
        design="4/C02",
        note="Trusted: Coq kernel; in-process harness (direct wiring / real PB in memory, virtual clock, scripted coin); sequential semantics (quiescent points only); tableau shape facts are not part of this invariant.",
        technique="Coq proof (inductive invariant preserved by every case of every operation, induction over operation lists) + vm_compute correspondence + object-graph oracle"),
    "C05": dict(
        text="Coq theorems over Model V (sequential semantics of the virtual-node network) for every state and operation: a refused operation returns the whole network state unchanged (refusal_atomic), "
             "iff-tables for every refusal cause, no undocumented failure; model tied to the code by step-by-step dump equality (bookkeeping + exact generator matrices + returned value / exception class) on random and scripted histories.",
        design="4/C05",
        note="Trusted: Coq kernel; in-process harness (direct wiring, virtual clock, scripted coin); Twisted/numpy not modelled; lock release is observed by the oracle, not proved. Error class across a real PB boundary is checked by the PB part when present.",
        technique="Coq proof (atomicity + decision tables over all states) + vm_compute correspondence of Model V with the real virtual nodes"),
    "C06": dict(
        text="Coq theorems: an operation of any kind through a stale handle is the identity on the whole network state; handle ids are unique and never reused, so a handle whose qubit was sent or measured destructively is stale after any later history (induction over all operation sequences). Tie: dump equality after every operation, ~25% of operations issued through retained stale handles.",
        design="4/C06",
        note="Trusted: as C05. Handle ids are ghost state of the model (allocated whenever the code constructs a virtualQubit); the harness assigns the same ids to the Python objects.",
        technique="Coq proof (invariant by induction over operation lists) + vm_compute correspondence"),
    "C07": dict(
        text="Coq theorems: for every capacity configuration and every history (failed operations included) every node holds at most its configured maximum; create/receive succeed iff held < max (register availability made explicit); two-qubit gates are never refused for capacity. Tie: dump equality after every operation against capacities 1..5 / registers 1..8.",
        design="4/C07",
        note="Trusted: as C05. Concurrent arrivals for the last slot are covered by the PB schedules of C03 when present, not by this sequential model.",
        technique="Coq proof (capacity invariant over fold_left step + iff decision theorems) + vm_compute correspondence"),
}

PENDING_REASON = "machinery for this property is not built yet in this revision (no claim made); see DESIGN.md section 4"


def main():
    checks = []
    for pid in ALL:
        if pid not in CLAIMED:
            continue
        c = CLAIMED[pid]
        checks.append({
            "property_id": pid,
            "quick_cmd": "./check %s --tier quick" % pid,
            "thorough_cmd": "./check %s --tier thorough" % pid,
            "evidence_file": "/verif/evidence/%s.json" % pid,
            "replay_cmd_template": "./check %s --replay {path}" % pid,
            "engine": "coq-sq",
            "level_claimed": {"category": "proof", "text": c["text"], "design_ref": "DESIGN.md section " + c["design"]},
            "level_note": c["note"],
            "technique": c["technique"],
        })
    m = {
        "version": 1,
        "setup_cmd": "./check build",
        "hooks": {
            "guard": "SIMULAQRON_VERIF",
            "enable": "no hook commits exist: the harness drives the unmodified code from outside (scratch copy of /repo, monkey-patched reactor/random/clock); SIMULAQRON_VERIF=1 is exported by the harness but nothing in /repo reads it",
            "baseline_off_cmd": "cd /repo && /venv/bin/python -m pytest -ra -q -p no:cacheprovider --timeout=900 --continue-on-collection-errors",
            "source_commits": [],
            "add_only": True,
        },
        "engines": [{"name": "coq-sq", "path": "/verif/coq", "serves_properties": sorted(CLAIMED),
                     "kind_free_text": "Coq 8.16.1 development (models + theorems), Python ast translators, vm_compute correspondence driven by /verif/harness"}],
        "checks": checks,
        "notes": "Every check copies /repo's working tree to a scratch directory, regenerates the translated Coq files, rebuilds the Coq development, re-checks the property theorems (Print Assumptions) and runs the model/implementation correspondence. known_findings.json lists genuine defects recorded rather than repaired.",
        "not_applicable": [{"property_id": p, "reason": PENDING_REASON} for p in ALL if p not in CLAIMED],
    }
    json.dump(m, open(os.path.join(VERIF, "MANIFEST.json"), "w"), indent=1)
    print("claimed:", sorted(CLAIMED))


if __name__ == "__main__":
    main()
