(* C03 - concurrent operations are serializable (lock level, Model L).
   Proved: lock discipline of all operations other than two-qubit gates (mutual exclusion, owner-only release) and finiteness.
   Refuted: the timeout branch of _lock_nodes releases locks held by another operation (D6); mutual exclusion fails.
   The full data-level statement (two_phase_serializable, see Conc/Serial.v) is NOT proved: model L carries no bookkeeping. *)
From Coq Require Import List Bool Arith.
From SQ Require Import Base.ListUtil Conc.Model Conc.Own Conc.Deadlock Conc.Serial Conc.Orphan.
Import ListNotations.

(* critical sections on one node never overlap *)
Theorem C03_two_phase_mutual_exclusion_partial : forall cfg nn tr s o1 o2 n,
  all_disciplined cfg -> run cfg (init nn cfg) tr = Some s ->
  holds s o1 n -> holds s o2 n -> o1 = o2.
Proof. exact disciplined_mutex. Qed.
Print Assumptions C03_two_phase_mutual_exclusion_partial.

Theorem C03_holder_is_owner : forall cfg nn tr s n o b,
  all_disciplined cfg -> run cfg (init nn cfg) tr = Some s ->
  lock_of s n = Some (o, b) -> b = false /\ holds s o n.
Proof. exact disciplined_holder_is_owner. Qed.
Print Assumptions C03_holder_is_owner.

Theorem C03_release_only_by_owner : forall cfg nn tr s n o was s',
  all_disciplined cfg -> run cfg (init nn cfg) tr = Some s ->
  step cfg s (ERel n o was) = Some s' -> was = true /\ lock_of s n = Some (o, false).
Proof. exact disciplined_release_by_owner. Qed.
Print Assumptions C03_release_only_by_owner.

(* the lock-discipline invariant itself, preserved by every event of every lock-disciplined configuration *)
Theorem C03_ownership_invariant : forall cfg s e s',
  all_disciplined cfg -> Own s -> step cfg s e = Some s' -> Own s'.
Proof. exact own_step. Qed.
Print Assumptions C03_ownership_invariant.

(* D6: operation 0 is inside its critical section over nodes 0 and 1 while the lock of node 0 is free (trace recorded from the
   implementation) *)
Theorem C03_serializable_refuted :
  exists s, run cfg_cross (init 2 cfg_cross) steal_trace = Some s /\
    critical s 0 0 = true /\ critical s 0 1 = true /\ lock_of s 0 = None.
Proof. exact mutual_exclusion_refuted_lemma. Qed.
Print Assumptions C03_serializable_refuted.

(* ... because the release_global_lock of operation 1's timeout branch freed the lock operation 0 held *)
Theorem C03_foreign_release :
  exists pre s, pre ++ [ERel 0 1 true] = steal_trace /\
    run cfg_cross (init 2 cfg_cross) pre = Some s /\
    critical s 0 0 = true /\ lock_of s 0 = Some (0, false).
Proof. exact foreign_release_lemma. Qed.
Print Assumptions C03_foreign_release.
