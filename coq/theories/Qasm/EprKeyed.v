(* C08, pairing lifted to the keyed model of Qasm/Epr.v (any number of sockets, node pairs, both directions, any
   interleaving of creations and polls on any keys).

   What the code does (executioner.py new_ent_id 619-628: counter per (own socket, remote node, remote socket) in the creating
   process; virtual.py netqasm_add_epr_list / netqasm_get_epr_recv 631-669: one deque per RECEIVING socket id at the
   receiving node, shared by every creator -- any node, any socket of that node -- that names this socket as its remote
   socket; the receiver pops the head without looking at who sent it).  Hence:

   * FIFO is a property of the QUEUE (receiving node, receiving socket): keyed_queue_fifo;
   * the sequence numbers of one DIRECTED KEY (creator, creator socket, receiver, receiver socket) are start, start+1, ...:
     keyed_made_seq;
   * per directed key the items the receiver obtained FROM THAT KEY (the queue's deliveries filtered by the sender fields the
     item carries) ++ those of the key still queued = the items created on the key, in creation order, and the i-th of them
     is the i-th created record (same sequence number, creator's node as remote node, sockets as the creator named them):
     keyed_pairing -- true for EVERY event list, shared queues included;
   * "the receiver's i-th result on that socket is the creator's i-th pair" WITHOUT filtering by sender is false when two
     creating keys share a receiving queue (shared_queue_unfiltered_refuted) and true when the key is the only one that
     creates into its queue (keyed_pairing_sole);
   * the one-direction model erun of Qasm/Epr.v is the special case of one key (one_direction_is_special_case), and
     epr_pairing follows from the keyed theorem (epr_pairing_from_keyed). *)
From Coq Require Import List Bool Arith Lia.
From SQ Require Import Base.ListUtil Qasm.Epr.
Import ListNotations.

(* ---- the two finite maps ---------------------------------------------------------------------------------------------- *)
Lemma nn_eqb_spec a b : reflect (a = b) (nn_eqb a b).
Proof.
  destruct a as [a1 a2], b as [b1 b2]. unfold nn_eqb; simpl.
  destruct (Nat.eqb_spec a1 b1); destruct (Nat.eqb_spec a2 b2); simpl; constructor; congruence.
Qed.
Lemma ckey_eqb_spec a b : reflect (a = b) (ckey_eqb a b).
Proof.
  destruct a as [[[a1 a2] a3] a4], b as [[[b1 b2] b3] b4]. unfold ckey_eqb.
  destruct (Nat.eqb_spec a1 b1); destruct (Nat.eqb_spec a2 b2); destruct (Nat.eqb_spec a3 b3); destruct (Nat.eqb_spec a4 b4);
    simpl; constructor; congruence.
Qed.
Lemma ckey_eqb_refl k : ckey_eqb k k = true.
Proof. destruct (ckey_eqb_spec k k); congruence. Qed.
Lemma nn_eqb_refl k : nn_eqb k k = true.
Proof. destruct (nn_eqb_spec k k); congruence. Qed.

Lemma q_get_set_eq Q v l : q_get Q (q_set Q v l) = v.
Proof.
  induction l as [|[k' v'] t IH]; simpl.
  - rewrite nn_eqb_refl. reflexivity.
  - destruct (nn_eqb_spec k' Q) as [E|N]; simpl.
    + destruct (nn_eqb_spec k' Q); congruence.
    + destruct (nn_eqb_spec k' Q); [contradiction|exact IH].
Qed.
Lemma q_get_set_neq Q Q' v l : Q <> Q' -> q_get Q' (q_set Q v l) = q_get Q' l.
Proof.
  intro H. induction l as [|[k' v'] t IH]; simpl.
  - destruct (nn_eqb_spec Q Q'); [contradiction|reflexivity].
  - destruct (nn_eqb_spec k' Q) as [E|N]; simpl.
    + subst k'. destruct (nn_eqb_spec Q Q'); [contradiction|reflexivity].
    + destruct (nn_eqb_spec k' Q'); auto.
Qed.
Lemma ctr_get_set_eq k v l : ctr_get k (ctr_set k v l) = v.
Proof.
  induction l as [|[k' v'] t IH]; simpl.
  - rewrite ckey_eqb_refl. reflexivity.
  - destruct (ckey_eqb_spec k' k) as [E|N]; simpl.
    + destruct (ckey_eqb_spec k' k); congruence.
    + destruct (ckey_eqb_spec k' k); [contradiction|exact IH].
Qed.
Lemma ctr_get_set_neq k k' v l : k <> k' -> ctr_get k' (ctr_set k v l) = ctr_get k' l.
Proof.
  intro H. induction l as [|[k0 v0] t IH]; simpl.
  - destruct (ckey_eqb_spec k k'); [contradiction|reflexivity].
  - destruct (ckey_eqb_spec k0 k) as [E|N]; simpl.
    + subst k0. destruct (ckey_eqb_spec k k'); [contradiction|reflexivity].
    + destruct (ckey_eqb_spec k0 k'); auto.
Qed.

(* ---- runs, traces, and what is read off a trace ---------------------------------------------------------------------------- *)
Fixpoint kfinal (s : kst) (evs : list kev) : kst :=
  match evs with [] => s | e :: t => kfinal (fst (kstep s e)) t end.
(* the observable trace: every event with what the implementation answered (krun is what the correspondence compares) *)
Definition ktrace (s : kst) (evs : list kev) : list (kev * option item) := combine evs (krun s evs).

Lemma ktrace_cons s e t : ktrace s (e :: t) = (e, snd (kstep s e)) :: ktrace (fst (kstep s e)) t.
Proof. unfold ktrace. cbn [krun]. destruct (kstep s e) as [s' o]. reflexivity. Qed.

Definition qk (k : ckey) : nat * nat := let '(_, _, r, rs) := k in (r, rs).     (* the queue a key delivers into *)
Definition item_of (k : ckey) (n : nat) : item := let '(c, ls, _, rs) := k in mkItem n c ls rs.
(* the item names key k as its origin: creator node, creator socket, receiving socket (the receiving node is the queue's) *)
Definition sent_by (k : ckey) (it : item) : bool :=
  let '(c, ls, _, rs) := k in Nat.eqb (i_from it) c && Nat.eqb (i_from_sock it) ls && Nat.eqb (i_to_sock it) rs.

Definition enq1 (Q : nat * nat) (eo : kev * option item) : list item :=
  match eo with (KCreate c ls r rs, Some it) => if nn_eqb (r, rs) Q then [it] else [] | _ => [] end.
Definition deq1 (Q : nat * nat) (eo : kev * option item) : list item :=
  match eo with (KPoll n sk, Some it) => if nn_eqb (n, sk) Q then [it] else [] | _ => [] end.
Definition made1 (k : ckey) (eo : kev * option item) : list item :=
  match eo with (KCreate c ls r rs, Some it) => if ckey_eqb (c, ls, r, rs) k then [it] else [] | _ => [] end.
Definition enq_at (Q : nat * nat) (tr : list (kev * option item)) : list item := flat_map (enq1 Q) tr.   (* appended to queue Q *)
Definition deq_at (Q : nat * nat) (tr : list (kev * option item)) : list item := flat_map (deq1 Q) tr.   (* handed to polls of Q *)
Definition made_on (k : ckey) (tr : list (kev * option item)) : list item := flat_map (made1 k) tr.      (* created on key k *)
Definition recv_from (k : ckey) (tr : list (kev * option item)) : list item := filter (sent_by k) (deq_at (qk k) tr).
Definition is_create_on (k : ckey) (e : kev) : bool :=
  match e with KCreate c ls r rs => ckey_eqb (c, ls, r, rs) k | KPoll _ _ => false end.
Definition count_on (k : ckey) (evs : list kev) : nat := length (filter (is_create_on k) evs).

Lemma kstep_create s c ls r rs :
  kstep s (KCreate c ls r rs) =
  (mkK (ctr_set (c, ls, r, rs) (S (ctr_get (c, ls, r, rs) (k_ctr s))) (k_ctr s))
       (q_set (r, rs) (q_get (r, rs) (k_q s) ++ [mkItem (ctr_get (c, ls, r, rs) (k_ctr s)) c ls rs]) (k_q s)),
   Some (mkItem (ctr_get (c, ls, r, rs) (k_ctr s)) c ls rs)).
Proof. reflexivity. Qed.

(* ---- (a) FIFO per queue, for every event list and every starting state ---------------------------------------------------- *)
Theorem keyed_queue_fifo evs : forall s Q,
  deq_at Q (ktrace s evs) ++ q_get Q (k_q (kfinal s evs)) = q_get Q (k_q s) ++ enq_at Q (ktrace s evs).
Proof.
  induction evs as [|e t IH]; intros s Q.
  - simpl. rewrite app_nil_r. reflexivity.
  - rewrite ktrace_cons. unfold deq_at, enq_at in *. cbn [flat_map kfinal].
    destruct e as [c ls r rs|n sk].
    + rewrite kstep_create. cbn [fst snd enq1 deq1]. set (it := mkItem _ c ls rs).
      specialize (IH (mkK (ctr_set (c, ls, r, rs) (S (ctr_get (c, ls, r, rs) (k_ctr s))) (k_ctr s))
                          (q_set (r, rs) (q_get (r, rs) (k_q s) ++ [it]) (k_q s))) Q).
      cbn [k_q] in IH. cbn [app]. rewrite IH.
      destruct (nn_eqb_spec (r, rs) Q) as [E|N].
      * subst Q. rewrite q_get_set_eq, <- app_assoc. reflexivity.
      * rewrite q_get_set_neq by exact N. reflexivity.
    + cbn [kstep]. destruct (q_get (n, sk) (k_q s)) as [|it q] eqn:EQ.
      * cbn [fst snd enq1 deq1 app]. apply IH.
      * cbn [fst snd enq1 deq1 app].
        specialize (IH (mkK (k_ctr s) (q_set (n, sk) q (k_q s))) Q). cbn [k_q] in IH.
        destruct (nn_eqb_spec (n, sk) Q) as [E|N].
        -- subst Q. rewrite q_get_set_eq in IH. rewrite EQ. cbn [app]. rewrite IH. reflexivity.
        -- rewrite q_get_set_neq in IH by exact N. cbn [app]. exact IH.
Qed.

(* ---- (b) the sequence numbers of one directed key --------------------------------------------------------------------------- *)
Theorem keyed_made_seq evs : forall s k,
  made_on k (ktrace s evs) = map (item_of k) (seq (ctr_get k (k_ctr s)) (count_on k evs)) /\
  ctr_get k (k_ctr (kfinal s evs)) = ctr_get k (k_ctr s) + count_on k evs.
Proof.
  induction evs as [|e t IH]; intros s k.
  - unfold count_on. simpl. split; [reflexivity|lia].
  - rewrite ktrace_cons. unfold made_on, count_on in *. cbn [flat_map kfinal filter].
    destruct e as [c ls r rs|n sk].
    + rewrite kstep_create. cbn [fst snd made1 is_create_on].
      specialize (IH (mkK (ctr_set (c, ls, r, rs) (S (ctr_get (c, ls, r, rs) (k_ctr s))) (k_ctr s))
                          (q_set (r, rs) (q_get (r, rs) (k_q s) ++ [mkItem (ctr_get (c, ls, r, rs) (k_ctr s)) c ls rs]) (k_q s))) k).
      cbn [k_ctr] in IH. destruct IH as [IH1 IH2]. rewrite IH1, IH2.
      destruct (ckey_eqb_spec (c, ls, r, rs) k) as [E|N].
      * subst k. rewrite ctr_get_set_eq. cbn [length seq map app item_of]. split; [reflexivity|lia].
      * rewrite ctr_get_set_neq by exact N. split; reflexivity.
    + cbn [is_create_on made1 app].
      assert (Y : k_ctr (fst (kstep s (KPoll n sk))) = k_ctr s).
      { cbn [kstep]. destruct (q_get (n, sk) (k_q s)); reflexivity. }
      destruct (IH (fst (kstep s (KPoll n sk))) k) as [IH1 IH2]. rewrite Y in IH1, IH2. split; assumption.
Qed.

Lemma map_seq_item_seq k a n : map i_seq (map (item_of k) (seq a n)) = seq a n.
Proof.
  rewrite map_map. destruct k as [[[c ls] r] rs]. simpl. apply map_id.
Qed.

Corollary keyed_seq_distinct s k evs : NoDup (map i_seq (made_on k (ktrace s evs))).
Proof. rewrite (proj1 (keyed_made_seq evs s k)), map_seq_item_seq. apply seq_NoDup. Qed.

(* what a key created is what it appended to its queue: the queue's arrivals filtered by the sender fields *)
Lemma sent_by_item_of k n : sent_by k (item_of k n) = true.
Proof. destruct k as [[[c ls] r] rs]. simpl. rewrite !Nat.eqb_refl. reflexivity. Qed.

Lemma made_is_filtered_enq evs : forall s k,
  filter (sent_by k) (enq_at (qk k) (ktrace s evs)) = made_on k (ktrace s evs).
Proof.
  induction evs as [|e t IH]; intros s k; [reflexivity|].
  rewrite ktrace_cons. unfold enq_at, made_on in *. cbn [flat_map]. rewrite filter_app, IH. f_equal.
  destruct e as [c ls r rs|n sk]; [|reflexivity].
  rewrite kstep_create. cbn [snd enq1 made1].
  destruct k as [[[ck lsk] rk] rsk]. cbn [qk]. unfold nn_eqb, ckey_eqb. cbn [fst snd].
  destruct (Nat.eqb_spec r rk); destruct (Nat.eqb_spec rs rsk); destruct (Nat.eqb_spec c ck); destruct (Nat.eqb_spec ls lsk);
    cbn [andb filter sent_by i_from i_from_sock i_to_sock]; try reflexivity;
    repeat match goal with |- context [Nat.eqb ?a ?b] => destruct (Nat.eqb_spec a b); try contradiction; try congruence end;
    cbn [andb]; reflexivity.
Qed.

Lemma nth_error_prefix {A} (l1 l2 l : list A) i x : l1 ++ l2 = l -> nth_error l1 i = Some x -> nth_error l i = Some x.
Proof.
  intros E H. subst l. rewrite nth_error_app1; auto. apply nth_error_Some. congruence.
Qed.
Lemma nth_error_map_seq {A} (f : nat -> A) a n i : i < n -> nth_error (map f (seq a n)) i = Some (f (a + i)).
Proof.
  intro H. rewrite nth_error_map. rewrite nth_error_nth' with (d := 0) by (rewrite seq_length; exact H).
  rewrite seq_nth by exact H. reflexivity.
Qed.

(* ---- keyed_pairing: (a)-(d) per directed key, every event list, shared queues included -------------------------------- *)
(* `s` is any state in which nothing of key k is in flight (kinit; or a state after earlier traffic that was fully
   received); start = the key's counter in s.  c/ls/r/rs: creator node, creator socket, receiver node, receiver socket. *)
Theorem keyed_pairing s evs c ls r rs :
  let k := (c, ls, r, rs) in
  filter (sent_by k) (q_get (r, rs) (k_q s)) = [] ->
  let tr := ktrace s evs in
  let start := ctr_get k (k_ctr s) in
  let queued := filter (sent_by k) (q_get (r, rs) (k_q (kfinal s evs))) in
  (* (a) FIFO: received from the key ++ still queued from the key = created on the key, in creation order *)
  recv_from k tr ++ queued = made_on k tr /\
  (* (b) created = records numbered start, start+1, ... : pairwise distinct sequence numbers *)
  made_on k tr = map (item_of k) (seq start (count_on k evs)) /\ NoDup (map i_seq (made_on k tr)) /\
  (* (c) the i-th item received from the key IS the i-th record created on it: sequence number start+i, remote node =
         the creator c (while the creator named r, the node whose queue delivered it), sockets as the creator named them *)
  (forall i it, nth_error (recv_from k tr) i = Some it ->
     nth_error (made_on k tr) i = Some it /\
     i_seq it = start + i /\ i_from it = c /\ i_from_sock it = ls /\ i_to_sock it = rs) /\
  (* (d) once as many were received from the key as were created on it, the receiver holds exactly the created ones *)
  (length (recv_from k tr) = count_on k evs -> recv_from k tr = made_on k tr /\ queued = []).
Proof.
  intros k H0 tr start queued.
  assert (A : recv_from k tr ++ queued = made_on k tr).
  { unfold recv_from, queued, tr. change (r, rs) with (qk k).
    rewrite <- filter_app, keyed_queue_fifo, filter_app. change (qk k) with (r, rs) at 1. rewrite H0. cbn [app].
    apply made_is_filtered_enq. }
  destruct (keyed_made_seq evs s k) as [B _]. fold tr start in B.
  split; [exact A|]. split; [exact B|]. split; [apply keyed_seq_distinct|]. split.
  - intros i it Hi. pose proof (nth_error_prefix _ _ _ i it A Hi) as Hm. split; [exact Hm|].
    rewrite B in Hm.
    assert (Li : i < count_on k evs).
    { assert (L : i < length (map (item_of k) (seq start (count_on k evs)))) by (apply nth_error_Some; congruence).
      rewrite map_length, seq_length in L. exact L. }
    rewrite nth_error_map_seq in Hm by exact Li. inversion Hm; subst it. unfold k. simpl. auto.
  - intro L. assert (Q : queued = []).
    { assert (LL : length (made_on k tr) = count_on k evs) by (rewrite B, map_length, seq_length; reflexivity).
      rewrite <- A, app_length in LL. destruct queued; [reflexivity|]. simpl in LL. lia. }
    rewrite Q, app_nil_r in A. auto.
Qed.

(* ---- shared queues: what is false, and the exact condition under which no filtering is needed ---------------------------- *)
(* nodes 2 and 0 both create one pair towards socket 0 of node 1; node 1 polls socket 0 once: it holds as many results as
   key (0,0,1,0) created, but the result is node 2's pair (the code pops the head of the socket's deque whoever sent it) *)
Theorem shared_queue_unfiltered_refuted :
  exists evs k, let tr := ktrace kinit evs in
    count_on k evs = 1 /\ length (deq_at (qk k) tr) = 1 /\ deq_at (qk k) tr <> made_on k tr /\
    recv_from k tr = [] /\ map i_from (deq_at (qk k) tr) = [2] /\ map i_from (made_on k tr) = [0].
Proof.
  exists [KCreate 2 0 1 0; KCreate 0 0 1 0; KPoll 1 0], (0, 0, 1, 0).
  vm_compute. repeat split; try reflexivity. intro H; discriminate H.
Qed.

(* the key is the only one creating into its queue *)
Definition sole_creator (k : ckey) (evs : list kev) : Prop :=
  forall c ls r rs, In (KCreate c ls r rs) evs -> (r, rs) = qk k -> (c, ls, r, rs) = k.

Lemma sole_enq_is_made evs : forall s k, sole_creator k evs -> enq_at (qk k) (ktrace s evs) = made_on k (ktrace s evs).
Proof.
  induction evs as [|e t IH]; intros s k S; [reflexivity|].
  rewrite ktrace_cons. unfold enq_at, made_on in *. cbn [flat_map].
  rewrite IH by (intros c ls r rs Hin; apply S; right; exact Hin). f_equal.
  destruct e as [c ls r rs|n sk]; [|reflexivity].
  rewrite kstep_create. cbn [snd enq1 made1].
  destruct (nn_eqb_spec (r, rs) (qk k)) as [E|N].
  - rewrite (S c ls r rs (or_introl eq_refl) E), ckey_eqb_refl. reflexivity.
  - destruct (ckey_eqb_spec (c, ls, r, rs) k) as [E2|N2]; [|reflexivity].
    exfalso. apply N. subst k. reflexivity.
Qed.

(* with a sole creator the receiving socket's results ARE the key's pairs, index by index, with no filtering *)
Theorem keyed_pairing_sole s evs c ls r rs :
  let k := (c, ls, r, rs) in
  q_get (r, rs) (k_q s) = [] -> sole_creator k evs ->
  let tr := ktrace s evs in
  let start := ctr_get k (k_ctr s) in
  let got := deq_at (r, rs) tr in                           (* everything polls of the receiving socket returned *)
  let queued := q_get (r, rs) (k_q (kfinal s evs)) in
  got ++ queued = made_on k tr /\
  made_on k tr = map (item_of k) (seq start (count_on k evs)) /\ NoDup (map i_seq (made_on k tr)) /\
  (forall i it, nth_error got i = Some it ->
     nth_error (made_on k tr) i = Some it /\
     i_seq it = start + i /\ i_from it = c /\ i_from_sock it = ls /\ i_to_sock it = rs) /\
  (length got = count_on k evs -> got = made_on k tr /\ queued = []).
Proof.
  intros k H0 S tr start got queued.
  assert (A : got ++ queued = made_on k tr).
  { unfold got, queued, tr. rewrite keyed_queue_fifo, H0. cbn [app]. apply (sole_enq_is_made evs s k S). }
  destruct (keyed_made_seq evs s k) as [B _]. fold tr start in B.
  split; [exact A|]. split; [exact B|]. split; [apply keyed_seq_distinct|]. split.
  - intros i it Hi. pose proof (nth_error_prefix _ _ _ i it A Hi) as Hm. split; [exact Hm|].
    rewrite B in Hm.
    assert (Li : i < count_on k evs).
    { assert (L : i < length (map (item_of k) (seq start (count_on k evs)))) by (apply nth_error_Some; congruence).
      rewrite map_length, seq_length in L. exact L. }
    rewrite nth_error_map_seq in Hm by exact Li. inversion Hm; subst it. unfold k. simpl. auto.
  - intro L. assert (Q : queued = []).
    { assert (LL : length (made_on k tr) = count_on k evs) by (rewrite B, map_length, seq_length; reflexivity).
      rewrite <- A, app_length in LL. destruct queued; [reflexivity|]. simpl in LL. lia. }
    rewrite Q, app_nil_r in A. auto.
Qed.

(* the condition is decidable and satisfiable by traffic in both directions on two socket pairs between three nodes *)
Definition sole_creatorb (k : ckey) (evs : list kev) : bool :=
  forallb (fun e => match e with
                    | KCreate c ls r rs => if nn_eqb (r, rs) (qk k) then ckey_eqb (c, ls, r, rs) k else true
                    | KPoll _ _ => true end) evs.
Lemma sole_creatorb_ok k evs : sole_creatorb k evs = true -> sole_creator k evs.
Proof.
  unfold sole_creatorb. rewrite forallb_forall. intros H c ls r rs Hin E. specialize (H _ Hin). cbv beta iota in H.
  destruct (nn_eqb_spec (r, rs) (qk k)); [|contradiction]. destruct (ckey_eqb_spec (c, ls, r, rs) k); [assumption|discriminate].
Qed.

Definition ex_traffic : list kev :=
  [KCreate 0 0 1 0; KCreate 1 0 0 0; KPoll 1 0; KCreate 0 1 1 1; KCreate 0 0 1 0; KCreate 2 0 1 2; KPoll 0 0;
   KPoll 1 1; KPoll 1 0; KPoll 1 2; KPoll 1 2; KCreate 0 0 1 0].
Example ex_sole_creators :
  sole_creator (0, 0, 1, 0) ex_traffic /\ sole_creator (1, 0, 0, 0) ex_traffic /\ sole_creator (0, 1, 1, 1) ex_traffic /\
  sole_creator (2, 0, 1, 2) ex_traffic /\
  count_on (0, 0, 1, 0) ex_traffic = 3 /\
  map i_seq (deq_at (1, 0) (ktrace kinit ex_traffic)) = [0; 1] /\
  map i_seq (q_get (1, 0) (k_q (kfinal kinit ex_traffic))) = [2] /\
  krun kinit [KPoll 1 2] = [None].
Proof.
  split; [apply sole_creatorb_ok; vm_compute; reflexivity|].
  split; [apply sole_creatorb_ok; vm_compute; reflexivity|].
  split; [apply sole_creatorb_ok; vm_compute; reflexivity|].
  split; [apply sole_creatorb_ok; vm_compute; reflexivity|].
  vm_compute. repeat split; reflexivity.
Qed.

(* ---- the one-direction model of Qasm/Epr.v is the keyed model restricted to one key ------------------------------------ *)
Definition emb (k : ckey) (e : ev) : kev :=
  let '(c, ls, r, rs) := k in match e with Create => KCreate c ls r rs | Poll => KPoll r rs end.
Definition kstart (k : ckey) (start : nat) : kst := mkK [(k, start)] [].

Lemma emb_sim k evs : forall (s : st) (ks : kst),
  nxt s = ctr_get k (k_ctr ks) -> queue s = map i_seq (q_get (qk k) (k_q ks)) ->
  let tr := ktrace ks (map (emb k) evs) in
  made (erun s evs) = made s ++ map i_seq (made_on k tr) /\
  got (erun s evs) = got s ++ map i_seq (deq_at (qk k) tr) /\
  queue (erun s evs) = map i_seq (q_get (qk k) (k_q (kfinal ks (map (emb k) evs)))) /\
  nxt (erun s evs) = ctr_get k (k_ctr (kfinal ks (map (emb k) evs))).
Proof.
  destruct k as [[[c ls] r] rs]. change (qk (c, ls, r, rs)) with (r, rs).
  induction evs as [|e t IH]; intros s ks Hn Hq.
  - simpl. rewrite !app_nil_r. auto.
  - cbn [map]. cbv zeta. rewrite ktrace_cons. unfold made_on, deq_at in *. cbn [flat_map kfinal].
    destruct e; cbn [emb].
    + rewrite kstep_create. cbn [fst snd made1 deq1]. rewrite ckey_eqb_refl.
      set (ks' := mkK _ _).
      destruct (IH (estep s Create) ks') as (A & B & C & D).
      * unfold ks'. cbn [estep nxt k_ctr]. rewrite ctr_get_set_eq. rewrite Hn. reflexivity.
      * unfold ks'. cbn [estep queue k_q]. rewrite q_get_set_eq, map_app, <- Hq. cbn [map i_seq]. rewrite Hn. reflexivity.
      * change (erun s (Create :: t)) with (erun (estep s Create) t).
        rewrite A, B, C, D. cbn [estep made got app map i_seq]. rewrite <- app_assoc, Hn. cbn [app]. auto.
    + cbn [kstep] in *. change (erun s (Poll :: t)) with (erun (estep s Poll) t).
      destruct (q_get (r, rs) (k_q ks)) as [|it q] eqn:EQ.
      * cbn [map] in Hq. cbn [fst snd made1 deq1 app]. cbn [estep]. rewrite Hq.
        destruct (IH s ks Hn) as (A & B & C & D); [rewrite EQ; exact Hq|]. auto.
      * cbn [map] in Hq. cbn [fst snd made1 deq1 app]. rewrite nn_eqb_refl. cbn [estep]. rewrite Hq.
        set (ks' := mkK _ _).
        destruct (IH (mkSt (nxt s) (map i_seq q) (made s) (got s ++ [i_seq it])) ks') as (A & B & C & D).
        -- exact Hn.
        -- unfold ks'. cbn [queue k_q]. rewrite q_get_set_eq. reflexivity.
        -- rewrite A, B, C, D. cbn [made got app map]. rewrite <- app_assoc. auto.
Qed.

Lemma creates_count_on k evs : creates evs = count_on k (map (emb k) evs).
Proof.
  unfold creates, count_on. induction evs as [|e t IH]; [reflexivity|].
  destruct k as [[[c ls] r] rs]. destruct e; cbn [map emb filter is_create_on].
  - rewrite ckey_eqb_refl. cbn [length]. f_equal. exact IH.
  - exact IH.
Qed.

Theorem one_direction_is_special_case k start evs :
  let s := erun (init_st start) evs in
  let kevs := map (emb k) evs in
  let tr := ktrace (kstart k start) kevs in
  made s = map i_seq (made_on k tr) /\ got s = map i_seq (deq_at (qk k) tr) /\
  queue s = map i_seq (q_get (qk k) (k_q (kfinal (kstart k start) kevs))) /\
  nxt s = ctr_get k (k_ctr (kfinal (kstart k start) kevs)) /\
  creates evs = count_on k kevs /\ sole_creator k kevs.
Proof.
  cbv zeta.
  destruct (emb_sim k evs (init_st start) (kstart k start)) as (A & B & C & D).
  - simpl. rewrite ckey_eqb_refl. reflexivity.
  - reflexivity.
  - split; [exact A|]. split; [exact B|]. split; [exact C|]. split; [exact D|]. split.
    + apply creates_count_on.
    + intros c ls r rs Hin E. apply in_map_iff in Hin as (e & He & _).
      destruct k as [[[c0 ls0] r0] rs0]. destruct e; cbn [emb] in He; [|discriminate]. inversion He; subst. reflexivity.
Qed.

(* epr_pairing (Qasm/Epr.v) re-derived from the keyed theorem through the embedding, for any key *)
Corollary epr_pairing_from_keyed start evs :
  let s := erun (init_st start) evs in
  made s = got s ++ queue s /\ made s = seq start (creates evs) /\ NoDup (made s) /\
  (length (got s) = creates evs -> got s = made s /\ queue s = []).
Proof.
  cbv zeta.
  destruct (one_direction_is_special_case (0, 0, 1, 0) start evs) as (A & B & C & _ & E & S).
  destruct (keyed_pairing_sole (kstart (0, 0, 1, 0) start) (map (emb (0, 0, 1, 0)) evs) 0 0 1 0 eq_refl S) as (P1 & P2 & P3 & _ & P5).
  change (qk (0, 0, 1, 0)) with (1, 0) in *.
  assert (St : ctr_get (0, 0, 1, 0) (k_ctr (kstart (0, 0, 1, 0) start)) = start) by reflexivity.
  rewrite St in P2.
  split; [rewrite A, B, C, <- map_app, P1; reflexivity|].
  split; [rewrite A, P2, map_seq_item_seq, E; reflexivity|].
  split; [rewrite A; exact P3|].
  intro L. rewrite B, map_length, E in L. destruct (P5 L) as [Q1 Q2].
  split; [rewrite A, B, Q1; reflexivity|rewrite C, Q2; reflexivity].
Qed.
