"""Drivers and printers for model F (framing, C10): the REAL NetQASMProtocol / NetQASMFactory / SubroutineHandler,
the REAL SimulaQronConnection._handle_reply / _commit_serialized_message over a scripted socket and REAL
sdk.socket.Socket objects over socket.socketpair().  Nothing here imports simulaqron at module import time."""
import fcntl
import itertools
import logging
import pickle
import re
import socket as pysocket
import struct
import termios

M32 = 0xFFFFFFFF


# ------------------------------------------------------------------------------------------------------------
# Coq literals
# ------------------------------------------------------------------------------------------------------------
def cN(n):
    return "%d%%N" % n


def cnat(n):
    return "%d%%nat" % n if n < 1000 else "(N.to_nat %d%%N)" % n


def cbytes(b):
    b = bytes(b)
    if len(b) > 400:
        runs = [(k, len(list(g))) for k, g in itertools.groupby(b)]
        if len(runs) * 4 < len(b):
            return "(rle [" + ";".join("(%d,%d)" % r for r in runs) + "]%N)"
    return "[" + ";".join(str(x) for x in b) + "]%N"


def clist(items):
    return "[" + "; ".join(items) + "]"


def chost(m):
    k = m[0]
    if k == "HSub":
        return "(HSub %s)" % cbytes(m[1])
    return "(%s %s)" % (k, " ".join(cN(x) for x in m[1:]))


def cframe(f):
    return "(%s, %s)" % (cN(f[0]), chost(f[1]))


def cret(m):
    k = m[0]
    if k == "RArr":
        return "(RArr %s [%s]%%N)" % (cN(m[1]), ";".join(str(v) for v in m[2]))
    return "(%s %s)" % (k, " ".join(cN(x) for x in m[1:]))


def copt(x, f):
    return "None" if x is None else "(Some %s)" % f(x)


def cbool(b):
    return "true" if b else "false"


CASE_HEADER = """From Coq Require Import List Bool Arith NArith.
From SQ Require Import Base.ListUtil Frame.Bytes Frame.Msg Frame.Stream Frame.Reply Frame.Conn Frame.Sock Frame.Cases.
Import ListNotations.
Local Open Scope nat_scope.
"""


def cases_text(cases):
    return (CASE_HEADER + "Definition all_cases : list fcase := [\n  " + ";\n  ".join(cases) + "\n].\n"
            "Eval vm_compute in (failing_cases all_cases).\n"
            "Eval vm_compute in (failing_cases_cur all_cases).\n")


# ------------------------------------------------------------------------------------------------------------
# host messages: model tuples <-> real netqasm objects
# ------------------------------------------------------------------------------------------------------------
def s32(v):
    v &= M32
    return v - (1 << 32) if v & 0x80000000 else v


def host_obj(m):
    from netqasm.backend import messages as Mg
    k = m[0]
    if k == "HInit":
        return Mg.InitNewAppMessage(app_id=m[1], max_qubits=m[2])
    if k == "HEpr":
        return Mg.OpenEPRSocketMessage(app_id=m[1], epr_socket_id=s32(m[2]), remote_node_id=s32(m[3]),
                                       remote_epr_socket_id=s32(m[4]), min_fidelity=m[5])
    if k == "HSub":
        return Mg.SubroutineMessage(bytes(m[1]))
    if k == "HStop":
        return Mg.StopAppMessage(app_id=m[1])
    if k == "HSignal":
        x = Mg.SignalMessage()
        x.signal = m[1]
        return x
    raise ValueError(k)


def host_tuple(o):
    from netqasm.backend import messages as Mg
    if isinstance(o, Mg.InitNewAppMessage):
        return ("HInit", o.app_id, o.max_qubits)
    if isinstance(o, Mg.OpenEPRSocketMessage):
        return ("HEpr", o.app_id, o.epr_socket_id & M32, o.remote_node_id & M32, o.remote_epr_socket_id & M32,
                o.min_fidelity)
    if isinstance(o, Mg.SubroutineMessage):
        return ("HSub", bytes(o.subroutine))
    if isinstance(o, Mg.StopAppMessage):
        return ("HStop", o.app_id)
    if isinstance(o, Mg.SignalMessage):
        return ("HSignal", o.signal)
    raise ValueError(type(o))


def enc_frame(f):
    """what SimulaQronConnection._commit_serialized_message writes for message id f[0] (header by the library class)"""
    from netqasm.backend.messages import MessageHeader
    raw = bytes(host_obj(f[1]))
    return bytes(MessageHeader(id=f[0], length=MessageHeader.len() + len(raw))) + raw


def rand_host(rng, small=False):
    k = rng.choice(["HInit", "HEpr", "HSub", "HSub", "HStop", "HSignal"] if not small else ["HSub", "HSignal", "HStop"])
    r32 = lambda: rng.choice([0, 1, 2, 255, 256, 65535, M32, rng.randrange(1 << 32), rng.randrange(16)])  # noqa: E731
    if k == "HInit":
        return (k, r32(), rng.randrange(256))
    if k == "HEpr":
        return (k, r32(), r32(), r32(), r32(), rng.randrange(256))
    if k == "HSub":
        n = rng.choice([0, 0, 1, 2, 3, 5, 8, 13]) if not small else rng.choice([0, 1, 2])
        # bodies deliberately look like headers / type bytes so that mis-slicing shows
        return (k, bytes(rng.choice([0, 1, 2, 3, 4, 8, 9, 255, rng.randrange(256)]) for _ in range(n)))
    if k == "HStop":
        return (k, r32())
    return (k, rng.choice([0, 0, 1, 200]))


def rand_frames(rng, n, small=False):
    return [(rng.choice([0, 1, 7, 255, 256, M32, rng.randrange(1 << 32)]), rand_host(rng, small)) for _ in range(n)]


# ------------------------------------------------------------------------------------------------------------
# return messages
# ------------------------------------------------------------------------------------------------------------
def ret_obj(m):
    from netqasm.backend import messages as Mg
    import netqasm.lang.encoding as enc
    k = m[0]
    if k == "RDone":
        return Mg.MsgDoneMessage(msg_id=m[1])
    if k == "RErr":
        x = Mg.ErrorMessage(Mg.ErrorCode.GENERAL)
        x.err_code = m[1]
        return x
    if k == "RReg":
        return Mg.ReturnRegMessage(register=enc.Register.from_buffer_copy(bytes([m[1]])), value=s32(m[2]))
    if k == "RArr":
        return Mg.ReturnArrayMessage(address=s32(m[1]), values=[s32(v) for v in m[2]])
    raise ValueError(k)


def ret_tuple(o):
    from netqasm.backend import messages as Mg
    if isinstance(o, Mg.MsgDoneMessage):
        return ("RDone", o.msg_id)
    if isinstance(o, Mg.ErrorMessage):
        return ("RErr", o.err_code)
    if isinstance(o, Mg.ReturnRegMessage):
        return ("RReg", bytes(o.register)[0], o.value & M32)
    if isinstance(o, Mg.ReturnArrayMessage):
        return ("RArr", o.address & M32, [v & M32 for v in o.values])
    raise ValueError(type(o))


def rand_ret(rng, kinds=("RReg", "RArr", "RDone")):
    k = rng.choice(kinds)
    r32 = lambda: rng.choice([0, 1, 2, 255, 256, M32, rng.randrange(1 << 32)])  # noqa: E731
    if k == "RDone":
        return (k, r32())
    if k == "RErr":
        return (k, rng.randrange(3))
    if k == "RReg":
        return (k, rng.randrange(64), r32())
    return (k, r32(), [r32() for _ in range(rng.choice([0, 1, 2, 3]))])


# ------------------------------------------------------------------------------------------------------------
# chunkings
# ------------------------------------------------------------------------------------------------------------
def cut(stream, cuts):
    pts = [0] + sorted(cuts) + [len(stream)]
    return [stream[a:b] for a, b in zip(pts, pts[1:])]


def all_cutsets(L, limit_exhaustive=14):
    """every cut set of a stream of L bytes when it has <= limit cut points, else every cut set of size <= 2"""
    pts = list(range(1, L))
    if len(pts) <= limit_exhaustive:
        for r in range(len(pts) + 1):
            for c in itertools.combinations(pts, r):
                yield c
    else:
        yield ()
        for p in pts:
            yield (p,)
        for c in itertools.combinations(pts, 2):
            yield c


def rand_cutset(rng, L):
    if L <= 1:
        return ()
    mode = rng.randrange(4)
    if mode == 0:
        return tuple(range(1, L))                       # one byte per read
    if mode == 1:
        return tuple(sorted(rng.sample(range(1, L), min(L - 1, rng.randrange(1, 4)))))
    if mode == 2:
        return tuple(p for p in range(1, L) if rng.random() < 0.3)
    return tuple(p for p in range(1, L) if rng.random() < 0.08)


# ------------------------------------------------------------------------------------------------------------
# server side: the real factory / protocol / handler
# ------------------------------------------------------------------------------------------------------------
class _Host:
    pass


class FakeTransport:
    def __init__(self, node, idx):
        self.node, self.idx = node, idx

    def write(self, data):
        self.node.writes.append((self.idx, bytes(data) if isinstance(data, (bytes, bytearray)) else data))


class ServerNode:
    """one simulated node: real NetQASMFactory + real SubroutineHandler (only the five per-type handlers are
    replaced by recording stubs: a subroutine 'executes' by returning register M5 := len(subroutine) through the
    handler's own _return_msg, everything else returns nothing) + real NetQASMProtocol per connection"""

    def __init__(self, slow=False):
        """slow=True: the backend is asynchronous — a subroutine 'executes' only when the harness fires its Deferred (self.pending), so that
        several messages of one connection are in flight at the same time, as with the real executioner"""
        from simulaqron.netqasm_backend.factory import NetQASMFactory
        from simulaqron.netqasm_backend.qnodeos import SubroutineHandler
        from netqasm.backend import messages as Mg
        import netqasm.lang.encoding as enc
        node = self
        self.writes = []       # (connection index, bytes) in global order
        self.log = []          # (connection index the read happened on, msg_id, message tuple)
        self.cur = None
        self.stops = 0
        self.crashes = []      # exceptions other than the ValueError of the deserialisers
        self.pending = []      # Deferreds of subroutines still 'executing' (slow backend only)

        class RecordingHandler(SubroutineHandler):
            def _get_message_handlers(self_h):
                def on_sub(msg):
                    if slow:
                        return on_sub_slow(msg)
                    self_h._return_msg(msg=Mg.ReturnRegMessage(register=enc.Register.from_buffer_copy(bytes([23])),
                                                               value=len(msg.subroutine)))

                def on_sub_slow(msg):
                    from twisted.internet.defer import Deferred
                    d = Deferred()
                    node.pending.append(d)
                    yield d
                    self_h._return_msg(msg=Mg.ReturnRegMessage(register=enc.Register.from_buffer_copy(bytes([23])),
                                                               value=len(msg.subroutine)))

                def on_other(msg):
                    return None
                return {t: (on_sub if t == Mg.MessageType.SUBROUTINE else on_other) for t in Mg.MessageType}

            def _handle_message(self_h, msg_id, msg):
                node.log.append((node.cur, msg_id, host_tuple(msg)))
                yield from super()._handle_message(msg_id=msg_id, msg=msg)

        self.factory = NetQASMFactory(_Host(), "Alice", None, RecordingHandler)
        self.factory.stop = self._stop
        self.protocols = []

    def _stop(self):
        self.stops += 1

    def open(self):
        p = self.factory.buildProtocol(None)
        p.makeConnection(FakeTransport(self, len(self.protocols)))
        self.protocols.append(p)
        return len(self.protocols) - 1

    def close(self, c):
        """connectionLost on connection c (the host closed it)"""
        from twisted.internet.error import ConnectionDone
        from twisted.python.failure import Failure
        self.protocols[c].connectionLost(Failure(ConnectionDone()))

    def data(self, c, chunk):
        """one dataReceived call; returns (frames handled during the call, buf afterwards, raised?)"""
        n0 = len(self.log)
        self.cur = c
        raised = False
        try:
            self.protocols[c].dataReceived(bytes(chunk))
        except ValueError:
            raised = True
        except Exception as e:                     # noqa: BLE001
            raised = True
            self.crashes.append("%s: %s" % (type(e).__name__, str(e)[:80]))
        finally:
            self.cur = None
        hs = [(i, m) for (_, i, m) in self.log[n0:]]
        return hs, bytes(self.protocols[c].buf or b""), raised

    def bufs(self):
        return [bytes(p.buf or b"") for p in self.protocols]


def run_server(chunks):
    """one fresh node, one connection; per-call observations"""
    n = ServerNode()
    c = n.open()
    obs = [n.data(c, ch) for ch in chunks]
    return n, obs


def server_case(chunks, obs):
    return "CServer %s %s" % (
        clist([cbytes(c) for c in chunks]),
        clist(["(%s, %s, %s)" % (clist([cframe(f) for f in hs]), cbytes(b), cbool(r)) for hs, b, r in obs]))


def node_case(ops, node):
    cops = clist(["Open" if o[0] == "open" else ("Close %s" % cnat(o[1])) if o[0] == "close" else "Data %s %s" % (cnat(o[1]), cbytes(o[2]))
                  for o in ops])
    return "CNode %s %s %s %s" % (
        cops, clist([cbytes(b) for b in node.bufs()]),
        clist(["(%s, %s)" % (cnat(c), cbytes(w)) for c, w in node.writes]),
        clist(["(%s, %s)" % (cnat(c), cframe((i, m))) for c, i, m in node.log]))


def parse_done_ids(writes, conn):
    """ids of the MsgDone messages among the writes to one connection (by the library's own deserialiser)"""
    from netqasm.backend import messages as Mg
    out = []
    for c, w in writes:
        if c != conn or not isinstance(w, bytes):
            continue
        try:
            m = Mg.deserialize_return_msg(w)
        except ValueError:
            continue
        if isinstance(m, Mg.MsgDoneMessage):
            out.append(m.msg_id)
    return out


# ------------------------------------------------------------------------------------------------------------
# host side: the real SimulaQronConnection with a scripted socket
# ------------------------------------------------------------------------------------------------------------
class Starved(Exception):
    pass


class ScriptSocket:
    def __init__(self, chunks=()):
        self.chunks = list(chunks)
        self.sent = []
        self.served = []

    def send(self, b):
        self.sent.append(bytes(b))
        return len(b)

    def recv(self, n):
        """the chunks are arrival bursts; like a stream socket, recv(n) hands out at most n bytes of what has arrived and leaves the rest"""
        if not self.chunks:
            raise Starved()
        c = self.chunks.pop(0)
        assert len(c) > 0
        if len(c) > n:
            self.chunks.insert(0, c[n:])
            c = c[:n]
        self.served.append(c)
        return c


class RecMemory:
    def __init__(self):
        self.upd = []

    def set_register(self, entry, value):
        self.upd.append(("RReg", entry.name.value | (entry.index << 2), value & M32))

    def init_new_array(self, address, new_array):
        self.upd.append(("RArr", address & M32, [v & M32 for v in new_array]))


class _NoSleep:
    @staticmethod
    def sleep(_):
        return None


def make_client(chunks=(), buf=b"", waiting=()):
    import simulaqron.sdk.connection as cm
    cm.time = _NoSleep                              # _handle_reply sleeps 0.1 s before every extra read
    c = cm.SimulaQronConnection.__new__(cm.SimulaQronConnection)
    c._socket = ScriptSocket(chunks)
    c.buf = buf
    c._waiting_msg_ids = set(waiting)
    c._done_msg_ids = set()
    c._next_msg_id = 0
    c._logger = logging.getLogger("c10-client")
    c._shared_memory = RecMemory()
    return c


def client_session(c, max_calls):
    """call _handle_reply until it stops returning; -> list of (outcome, updates during that call)"""
    calls = []
    for _ in range(max_calls):
        n0 = len(c._shared_memory.upd)
        try:
            i = c._handle_reply()
            out = ("HRDone", i)
        except Starved:
            out = ("HRStarved",)
        except RuntimeError as e:
            if "Received error message from backend" not in str(e):
                out = ("HRCrash", "%s: %s" % (type(e).__name__, str(e)[:80]))       # e.g. RecursionError: a misbehaviour of the implementation
            else:
                out = ("HRError", ("RErr", int(re.search(r"err_code=(\d+)", str(e)).group(1))))
        except Exception as e:                     # noqa: BLE001  anything else is a misbehaviour of the implementation
            out = ("HRCrash", "%s: %s" % (type(e).__name__, str(e)[:80]))
        calls.append((out, list(c._shared_memory.upd[n0:])))
        if out[0] != "HRDone":
            break
    return calls


def cout(o):
    if o[0] == "HRDone":
        return "(HRDone %s)" % cN(o[1])
    if o[0] == "HRError":
        return "(HRError %s)" % cret(o[1])
    if o[0] == "HRCrash":
        return "HRFuel"                            # an outcome the model never produces: the case disagrees
    return "HRStarved"


def client_case(n, buf0, chunks, calls, final_buf):
    return "CClient %s %s %s %s %s" % (
        cnat(n), cbytes(buf0), clist([cbytes(c) for c in chunks]),
        clist(["(%s, %s)" % (cout(o), clist([cret(u) for u in upd])) for o, upd in calls]), cbytes(final_buf))


# ------------------------------------------------------------------------------------------------------------
# classical socket: real sdk Socket objects on a socketpair, with a recording proxy around the OS socket
# ------------------------------------------------------------------------------------------------------------
class RecProxy:
    def __init__(self, s):
        self.s = s
        self.sent = []
        self.got = []

    def send(self, b):
        n = self.s.send(b)
        assert n == len(b)
        self.sent.append(bytes(b))
        return n

    def recv(self, n):
        r = self.s.recv(n)
        self.got.append(bytes(r))
        return r

    def setblocking(self, f):
        self.s.setblocking(f)

    def close(self):
        self.s.close()

    def pending(self):
        return struct.unpack("i", fcntl.ioctl(self.s, termios.FIONREAD, b"\0\0\0\0"))[0]


def socket_pair():
    from simulaqron.sdk.socket import Socket
    a, b = pysocket.socketpair()
    out = []
    for raw, names in ((a, ("Alice", "Bob")), (b, ("Bob", "Alice"))):
        s = Socket.__new__(Socket)
        s._node_name, s._remote_node_name = names
        s._use_callbacks = False
        s._network_name = "default"
        s._logger = logging.getLogger("c10-socket")
        s._app_socket = RecProxy(raw)
        out.append(s)
    return out


def sock_case(ops, rx):
    cops = clist(["Send %s" % cbytes(o[1]) if o[0] == "send" else "Recv %s %s" % (cnat(o[1]), cnat(o[2])) for o in ops])
    return "CSock %s %s %s" % (cops, clist([cbytes(g) for g in rx._app_socket.got]), cnat(rx._app_socket.pending()))


def rand_plain(rng, n):
    if n > 300:
        # long runs (compact Coq literal), still position dependent
        out, c = [], 97
        while len(out) < n:
            k = min(n - len(out), rng.choice([1, 7, 500, 1024, 4096, 10000]))
            out.append(chr(c) * k)
            c = 97 + (c - 96) % 26
        return "".join(out)[:n]
    return "".join(rng.choice("abcXYZ019 _") for _ in range(n))


def big_struct(n):
    from netqasm.sdk.classical_communication.message import StructuredMessage
    return StructuredMessage(header="blob", payload=("blob", "y" * n))


def rand_struct(rng):
    """a StructuredMessage as applications send it (netqasm.sdk.classical_communication.message): a header string and an arbitrary picklable
    payload; the payloads include the Python values whose identity a lossy encoding would change (tuples, integer / tuple dictionary keys, None,
    bytes, nested mixes)"""
    from netqasm.sdk.classical_communication.message import StructuredMessage
    k = rng.randrange(9)
    if k == 0:
        pl = rng.randrange(1 << 20)
    elif k == 1:
        pl = [rng.randrange(2) for _ in range(rng.choice([1, 8, 64, 400]))]
    elif k == 2:
        pl = ("basis", rng.randrange(2), "x" * rng.choice([1, 30]))
    elif k == 3:
        pl = {"k": [1, 2, 3], "n": None}
    elif k == 4:
        pl = {0: "X", 1: "Z", (1, 0): [("a", 1), ("b", 2)]}
    elif k == 5:
        pl = [(rng.randrange(2), rng.randrange(3)) for _ in range(rng.choice([1, 5, 40]))]
    elif k == 6:
        pl = bytes(rng.randrange(256) for _ in range(rng.choice([1, 16, 300])))
    elif k == 7:
        pl = {"outcomes": (0, 1, 1), "bases": {"alice": ("X", "Z"), 7: None}, "ok": True, "p": 0.25}
    else:
        pl = "m" * rng.choice([1, 10, 2000])
    return StructuredMessage(header=rng.choice(["", "h", "basis info", "corrections"]), payload=pl)


def pickled(m):
    return pickle.dumps(m)
