(* Model C — network configuration (C16).
   simulaqron/toolbox/manage_nodes.py  (NetworksConfigConstructor, _NetworkConfig, _NodeConfig)
   simulaqron/general/host_config.py:52-58   (get_node_id_from_net_config)
   simulaqron/sdk/connection.py:330-347      (SimulaQronNetworkInfo._get_node_id / _get_node_name)

   Executable definitions only; proofs are in Conf/Assoc.v, Conf/Sort.v, Conf/Invariant.v, Conf/Ids.v.
   The model describes the code *with the repairs D11, D12, D17 applied* (see notes/C16.md):
     D11  remove_node also deletes the node from the topology (key and neighbour lists)
     D12  _get_node_name is the inverse of _get_node_id (index in the sorted name list)
     D17  _get_unused_port raises ValueError when no port is left instead of returning None
   Python dicts are insertion-ordered; they are modelled as association lists in that order
   (`aset` overwrites in place or appends, exactly as `d[k] = v` does). *)
From Coq Require Import List Bool Arith NArith String.
Import ListNotations.
Open Scope string_scope.
Open Scope list_scope.

(* ---------------------------------------------------------------------------------------------- *)
(* insertion-ordered dictionaries with string keys                                                  *)
(* ---------------------------------------------------------------------------------------------- *)
Section Assoc.
  Context {V : Type}.
  Fixpoint aget (l : list (string * V)) (k : string) : option V :=
    match l with
    | [] => None
    | (k', v) :: t => if String.eqb k' k then Some v else aget t k
    end.
  Fixpoint aset (l : list (string * V)) (k : string) (v : V) : list (string * V) :=
    match l with
    | [] => [(k, v)]
    | (k', v') :: t => if String.eqb k' k then (k, v) :: t else (k', v') :: aset t k v
    end.
  Definition adel (l : list (string * V)) (k : string) : list (string * V) :=
    filter (fun kv => negb (String.eqb (fst kv) k)) l.
End Assoc.

(* ---------------------------------------------------------------------------------------------- *)
(* data                                                                                             *)
(* ---------------------------------------------------------------------------------------------- *)
Definition name := string.
Definition endpoint := (string * N)%type.                 (* (hostname, port) as compared by the code *)
Record node3 := mkNode { n_app : endpoint; n_qnos : endpoint; n_vnode : endpoint }.
Definition topo := list (name * list name).
Record network := mkNet { nodes : list (name * node3); topology : option topo }.
Definition cfgd := list (name * network).                 (* = to_dict() = content of the json file *)

Record state := mkState {
  cfg : cfgd;                      (* self.networks *)
  used : list endpoint;            (* self.used_sockets (never shrinks) *)
  calls : nat;                     (* number of OS probes made so far: index into the oracle *)
  file : option cfgd               (* the file at file_path, None = does not exist *)
}.

Definition ep_eqb (a b : endpoint) : bool := String.eqb (fst a) (fst b) && N.eqb (snd a) (snd b).
Definition mem_ep (e : endpoint) (l : list endpoint) : bool := existsb (ep_eqb e) l.
Definition eps (nd : node3) : list endpoint := [n_app nd; n_qnos nd; n_vnode nd].

Definition defnet (n : option name) : name := match n with Some x => x | None => "default" end.
Definition defhost (h : option string) : string := match h with Some x => x | None => "localhost" end.

Inductive res := ROk | RValueError | RKeyError.

Inductive op :=
| AddNode (net : option name) (x : name) (ha hq hv : option string) (pa pq pv : option N) (nb : option (list name))
| RemoveNode (net : option name) (x : name)
| AddNetwork (net : option name) (xs : list name) (tp : option topo)
| RemoveNetwork (net : option name)
| Reset
| Write            (* write_to_file()            *)
| Read             (* read_from_file() on the same object: merges the file into the current content *)
| Load.            (* a fresh NetworksConfigConstructor(file_path) — "a participant started later"   *)

(* ---------------------------------------------------------------------------------------------- *)
(* port selection (manage_nodes.py:57-72, 250-289)                                                  *)
(* ---------------------------------------------------------------------------------------------- *)
Definition port_range : list N := map (fun i => (8000 + N.of_nat i)%N) (seq 0 1001).   (* range(8000, 9001) *)

Section WithOS.
  (* _check_socket_is_free: arbitrary, may answer differently on every call (call index, port) *)
  Variable os_free : nat -> N -> bool.

  (* _get_unused_port: first port of the range that is neither reserved nor refused by the OS;
     the OS is asked only for ports that are not reserved (_check_port_available) *)
  Fixpoint first_free (h : string) (usd : list endpoint) (k : nat) (cands : list N) : option N * nat :=
    match cands with
    | [] => (None, k)
    | p :: t => if mem_ep (h, p) usd then first_free h usd k t
                else if os_free k p then (Some p, S k) else first_free h usd (S k) t
    end.

  (* one (hostname, port) argument pair of add_node; None = ValueError *)
  Definition resolve1 (usd : list endpoint) (k : nat) (h : option string) (p : option N)
    : option endpoint * list endpoint * nat :=
    let h' := defhost h in
    match p with
    | None => match first_free h' usd k port_range with
              | (Some q, k') => (Some (h', q), usd ++ [(h', q)], k')
              | (None, k') => (None, usd, k')                                  (* D17 repaired: raise *)
              end
    | Some q => if mem_ep (h', q) usd then (None, usd, k)
                else if os_free k q then (Some (h', q), usd ++ [(h', q)], S k) else (None, usd, S k)
    end.

  (* the loop over the three roles: reservations made before a refusal stay in used_sockets *)
  Fixpoint resolve (usd : list endpoint) (k : nat) (l : list (option string * option N))
    : option (list endpoint) * list endpoint * nat :=
    match l with
    | [] => (Some [], usd, k)
    | (h, p) :: t =>
        match resolve1 usd k h p with
        | (Some e, usd', k') =>
            match resolve usd' k' t with
            | (Some es, u, kk) => (Some (e :: es), u, kk)
            | (None, u, kk) => (None, u, kk)
            end
        | (None, usd', k') => (None, usd', k')
        end
    end.

  (* _NetworkConfig.add_node *)
  Definition full_topo (ks : list name) : topo :=
    map (fun x => (x, filter (fun y => negb (String.eqb y x)) ks)) ks.
  Definition net_add (nw : network) (x : name) (nd : node3) (nb : option (list name)) : network :=
    let tp := match nb with
              | None => topology nw
              | Some l => let t0 := match topology nw with
                                    | None => full_topo (map fst (nodes nw))
                                    | Some t => t
                                    end in
                          Some (aset t0 x l)
              end in
    mkNet (aset (nodes nw) x nd) tp.
  Definition empty_net := mkNet [] None.
  Definition cfg_add (c : cfgd) (nn x : name) (nd : node3) (nb : option (list name)) : cfgd :=
    aset c nn (net_add (match aget c nn with Some nw => nw | None => empty_net end) x nd nb).

  (* NetworksConfigConstructor.add_node *)
  Definition add_node (s : state) (net : option name) (x : name) (ha hq hv : option string)
             (pa pq pv : option N) (nb : option (list name)) : state * res :=
    match resolve (used s) (calls s) [(ha, pa); (hq, pq); (hv, pv)] with
    | (Some [a; q; v], u, k) =>
        (mkState (cfg_add (cfg s) (defnet net) x (mkNode a q v) nb) u k (file s), ROk)
    | (_, u, k) => (mkState (cfg s) u k (file s), RValueError)
    end.

  (* remove_node, with D11 repaired *)
  Definition net_remove (nw : network) (x : name) : network :=
    mkNet (adel (nodes nw) x)
          (option_map (fun t => map (fun yl => (fst yl, filter (fun z => negb (String.eqb z x)) (snd yl))) (adel t x))
                      (topology nw)).
  Definition remove_node (s : state) (net : option name) (x : name) : state :=
    match aget (cfg s) (defnet net) with
    | Some nw => mkState (aset (cfg s) (defnet net) (net_remove nw x)) (used s) (calls s) (file s)
    | None => s
    end.

  Definition remove_network (s : state) (net : option name) : state :=
    mkState (adel (cfg s) (defnet net)) (used s) (calls s) (file s).

  (* the loop of add_network: stops at the first exception, what was added before stays *)
  Fixpoint add_nodes (s : state) (net : option name) (xs : list name) (tp : option topo) : state * res :=
    match xs with
    | [] => (s, ROk)
    | x :: t =>
        match (match tp with
               | None => Some None
               | Some tp0 => match aget tp0 x with Some l => Some (Some l) | None => None end
               end) with
        | None => (s, RKeyError)                                    (* topology[node_name] *)
        | Some nb =>
            match add_node s net x None None None None None None nb with
            | (s', ROk) => add_nodes s' net t tp
            | (s', r) => (s', r)
            end
        end
    end.
  Definition add_network (s : state) (net : option name) (xs : list name) (tp : option topo) : state * res :=
    add_nodes (remove_network s net) (Some (defnet net)) xs tp.

  Definition reset_names : list name := ["Alice"; "Bob"; "Charlie"; "David"; "Eve"].
  Definition reset (s : state) : state * res :=
    add_network (mkState [] (used s) (calls s) (file s)) None reset_names None.

  (* read_from_file *)
  Definition add_used (usd : list endpoint) (e : endpoint) : list endpoint :=
    if mem_ep e usd then usd else usd ++ [e].
  Definition read_used (usd : list endpoint) (f : cfgd) : list endpoint :=
    fold_left (fun u nnw => fold_left (fun u' xnd => fold_left add_used (eps (snd xnd)) u') (nodes (snd nnw)) u) f usd.
  Definition read_cfg (c : cfgd) (f : cfgd) : cfgd :=
    fold_left (fun c' nnw => aset c' (fst nnw) (snd nnw)) f c.

  Definition step (s : state) (o : op) : state * res :=
    match o with
    | AddNode net x ha hq hv pa pq pv nb => add_node s net x ha hq hv pa pq pv nb
    | RemoveNode net x => (remove_node s net x, ROk)
    | AddNetwork net xs tp => add_network s net xs tp
    | RemoveNetwork net => (remove_network s net, ROk)
    | Reset => reset s
    | Write => (mkState (cfg s) (used s) (calls s) (Some (cfg s)), ROk)
    | Read => match file s with
              | Some f => (mkState (read_cfg (cfg s) f) (read_used (used s) f) (calls s) (file s), ROk)
              | None => (s, RValueError)
              end
    | Load => match file s with
              | Some f => (mkState (read_cfg [] f) (read_used [] f) (calls s) (file s), ROk)
              | None => (mkState [] [] (calls s) None, ROk)
              end
    end.

  Definition run (s : state) (ops : list op) : state := fold_left (fun s o => fst (step s o)) ops s.
End WithOS.

Definition init : state := mkState [] [] 0 None.

(* may this edit (re)introduce the name x into network nn?  (used to state that a removed node stays gone) *)
Definition smem (x : string) (l : list string) : bool := existsb (String.eqb x) l.
Definition mentions (nn x : name) (o : op) : bool :=
  match o with
  | AddNode net y _ _ _ _ _ _ nb =>
      String.eqb (defnet net) nn && (String.eqb y x || match nb with Some l => smem x l | None => false end)
  | AddNetwork net xs tp =>
      String.eqb (defnet net) nn
      && (smem x xs || match tp with Some t => existsb (fun yl => smem x (snd yl)) t | None => false end)
  | Reset => String.eqb nn "default" && smem x reset_names
  | Read | Load => true
  | RemoveNode _ _ | RemoveNetwork _ | Write => false
  end.

(* ---------------------------------------------------------------------------------------------- *)
(* node ids: functions of the file content only                                                     *)
(* ---------------------------------------------------------------------------------------------- *)
Fixpoint insert (x : string) (l : list string) : list string :=
  match l with
  | [] => [x]
  | h :: t => if String.leb x h then x :: h :: t else h :: insert x t
  end.
Fixpoint isort (l : list string) : list string :=
  match l with
  | [] => []
  | h :: t => insert h (isort t)
  end.
Fixpoint index_of (x : string) (l : list string) : option nat :=
  match l with
  | [] => None
  | h :: t => if String.eqb h x then Some 0 else option_map S (index_of x t)
  end.

(* hostDict.keys() of SocketsConfig(file, network_name, config_type): the same for all three roles *)
Definition node_names (f : cfgd) (nn : name) : option (list name) :=
  option_map (fun nw => map fst (nodes nw)) (aget f nn).
(* get_node_id_from_net_config / _get_node_id *)
Definition node_id (f : cfgd) (nn : name) (x : name) : option nat :=
  match node_names f nn with Some ks => index_of x (isort ks) | None => None end.
(* _get_node_name, with D12 repaired *)
Definition name_of_id (f : cfgd) (nn : name) (i : nat) : option name :=
  match node_names f nn with Some ks => nth_error (isort ks) i | None => None end.

(* ---------------------------------------------------------------------------------------------- *)
(* predicates of the property                                                                        *)
(* ---------------------------------------------------------------------------------------------- *)
Definition entries (c : cfgd) : list (name * name * node3) :=
  flat_map (fun nnw => map (fun xnd => (fst nnw, fst xnd, snd xnd)) (nodes (snd nnw))) c.
Definition endpoints (c : cfgd) : list endpoint := flat_map (fun e => eps (snd e)) (entries c).

(* x occurs nowhere in network nn: not a node, not a topology key, in no neighbour list *)
Definition absent_net (nw : network) (x : name) : Prop :=
  ~ In x (map fst (nodes nw)) /\
  match topology nw with
  | None => True
  | Some t => ~ In x (map fst t) /\ forall y l, In (y, l) t -> ~ In x l
  end.
Definition absent (c : cfgd) (nn x : name) : Prop := forall nw, In (nn, nw) c -> absent_net nw x.
