"""C12, end-to-end half (to be merged with the decision-function check of props/c12.py): requests towards non-neighbours,
towards the node itself and towards unknown node ids are refused with an error and create no qubit anywhere; requests
towards neighbours succeed.  Exposes extra(ctx, env); called from props/c08.py (same in-process hosts)."""
import itertools
import logging
import random

import net_sync as N
import qasm_epr as EP
import qasm_sync as Q
from props import c09


def expected(topology, names, c, r_name):
    if r_name not in names or r_name == names[c]:
        return False
    if topology is None:
        return True
    return r_name in topology.get(names[c], [])


def one_request(env, n_nodes, topology, c, r_name, pb=False):
    """node c asks for one pair with node r_name (maybe itself / a name no host knows). Returns observation dict."""
    from props import c08
    net, names = c08.make_net(env, n_nodes, pb, cap=6)
    for h in net.hosts:
        h.factory.topology = topology
    all_names = names + (["N9"] if r_name == "N9" else [])
    ids = Q.node_ids(all_names)
    sdk_remote = r_name
    if r_name == names[c]:
        sdk_remote = "SELF"                  # the SDK refuses a socket to itself on the client side: name the own id differently
        ids["SELF"] = ids[names[c]]
    counts0 = [(len(n.virtQubits), len(n.simQubits), len(n.registers)) for n in net.nodes]
    tap0 = len(env.tap)

    def creator(conn, eprs):
        eprs[0].create_keep(1)
        conn.flush()

    def receiver(conn, eprs):
        eprs[0].recv_keep(1)
        conn.flush()
    streams = {c: [m for m in EP.sdk_messages(all_names, names[c], 0, [(sdk_remote, 0, 0)], creator, ids=ids) if type(m).__name__ != "StopAppMessage"]}
    allow = expected(topology, names, c, r_name)
    if allow:
        r = names.index(r_name)
        streams[r] = [m for m in EP.sdk_messages(all_names, r_name, 0, [(names[c], 0, 0)], receiver) if type(m).__name__ != "StopAppMessage"]
    Q.script_coins(env, [0] * 16, tap0)
    out = EP.run_concurrently(env, net, streams, random.Random(7))
    Q.script_coins(env, None, 0)
    crep = [rep for (m, rep, esc) in out[c] if type(m).__name__ == "SubroutineMessage"]
    crep = crep[0] if crep else []
    news = [t for t in env.tap[tap0:] if t["method"] == "new_qubit"]
    counts1 = [(len(n.virtQubits), len(n.simQubits), len(n.registers)) for n in net.nodes]
    return {"allow": allow, "error": ("err", 0) in crep, "done": bool(crep) and crep[-1][0] == "done", "new_calls": len(news),
            "counts0": counts0, "counts1": counts1, "replies": crep}


def extra(ctx, env):
    t = ctx.tier == "thorough"
    rng = random.Random(ctx.seed * 7919 + 12)
    logging.disable(logging.CRITICAL)
    cases = []
    names3 = ["N0", "N1", "N2"]
    topos = [None, {}, {"N0": ["N1"], "N1": ["N0"]}, {"N0": ["N1", "N2"], "N1": [], "N2": ["N0"]}, {"N1": ["N0", "N2"]}]
    for _ in range(40 if t else 8):
        topo = {}
        for a in names3:
            if rng.random() < 0.8:          # nodes absent from the topology have no neighbours
                topo[a] = [b for b in names3 if b != a and rng.random() < 0.5]
        topos.append(topo)
    bad = []
    with c09.quiet():
        for ti, topo in enumerate(topos):
            targets = list(itertools.product(range(3), names3 + ["N9"]))
            if not t and ti >= 5:
                targets = rng.sample(targets, 5)
            for c, r_name in targets:
                o = one_request(env, 3, topo, c, r_name, pb=(ti % 4 == 3 and c == 0))
                ctx.count("e2e_requests")
                ctx.count("e2e_allowed" if o["allow"] else "e2e_refused_" + ("self" if r_name == names3[c] else "unknown" if r_name == "N9" else "not_adjacent"))
                ctx.case(("e2e", str(topo), c, r_name), nontrivial=True)
                what = None
                if o["allow"]:
                    if o["error"] or not o["done"] or o["new_calls"] != 2:
                        what = "request towards a neighbour failed: replies %r" % (o["replies"],)
                else:
                    if not o["error"]:
                        what = "request that must be refused was not answered with an error: %r" % (o["replies"],)
                    elif o["new_calls"] or o["counts1"] != o["counts0"]:
                        what = "refused request created qubits: %d new_qubit calls, node counts %r -> %r" % (o["new_calls"], o["counts0"], o["counts1"])
                if what:
                    bad.append((what, {"topology": topo, "creator": "N%d" % c, "remote": r_name}))
    logging.disable(logging.NOTSET)
    ctx.obligation("C12 end-to-end: %d requests over %d topologies (3 nodes incl. nodes absent from the topology, self, unknown id): allowed iff neighbour, "
                   "refusals answer ErrorMessage, make no new_qubit call and leave all node counts unchanged" % (ctx.coverage.get("e2e_requests", 0), len(topos)),
                   not bad, bad[0][0] if bad else "")
    for what, rep in bad[:1]:
        ctx.report("C12:e2e", what, rep, found_input=True)
